// emith is the Engine E child process: it monitors the root package's emitter
// combinators (cff.EmitterStack, cff.NopEmitter) directly at their API. Random
// forests of stacks are built first - leaves are recording emitters; stacks
// are shared between several parents, nested in any position, extended again
// and again, as generated code does when several directives combine a common
// base emitter with their own (WithEmitter(base), WithEmitter(own)) - and
// only then is a unique event sequence driven through every stack. Oracle
// (C18, last sentence): a leaf receives, for every stack it is part of,
// exactly the events driven through that stack, in order, with the very
// payloads (context, error, panic value, duration, info pointers), and nothing
// from any stack it is not part of.
package main

import (
	"context"
	"encoding/json"
	"errors"
	"flag"
	"fmt"
	"os"
	"sync"
	"time"

	"go.uber.org/cff"
	"verif/vc"
)

type ev struct {
	Stack int    // which drive the event belongs to (recovered from the payload)
	M     string // method
	Pay   interface{}
}

type leaf struct {
	id int
	mu sync.Mutex
	ev []ev
}

func (l *leaf) log(stack int, m string, pay interface{}) {
	l.mu.Lock()
	l.ev = append(l.ev, ev{stack, m, pay})
	l.mu.Unlock()
}

// Every payload carries the drive it belongs to.
type driveKey struct{}

func driveOf(ctx context.Context) int {
	if v, ok := ctx.Value(driveKey{}).(int); ok {
		return v
	}
	return -1
}

type taskEm struct {
	l     *leaf
	drive int
}

func driveOfName(name string) int {
	var d int
	if _, err := fmt.Sscanf(name, "d%d", &d); err != nil {
		return -1
	}
	return d
}

func (l *leaf) TaskInit(ti *cff.TaskInfo, di *cff.DirectiveInfo) cff.TaskEmitter {
	d := driveOfName(ti.Name)
	l.log(d, "TaskInit", [2]interface{}{ti, di})
	return &taskEm{l, d}
}
func (t *taskEm) TaskSuccess(ctx context.Context) { t.l.log(t.drive, "TaskSuccess", ctx) }
func (t *taskEm) TaskError(ctx context.Context, err error) {
	t.l.log(t.drive, "TaskError", [2]interface{}{ctx, err})
}
func (t *taskEm) TaskSkipped(ctx context.Context, err error) {
	t.l.log(t.drive, "TaskSkipped", [2]interface{}{ctx, err})
}
func (t *taskEm) TaskErrorRecovered(ctx context.Context, err error) {
	t.l.log(t.drive, "TaskErrorRecovered", [2]interface{}{ctx, err})
}
func (t *taskEm) TaskPanic(ctx context.Context, v interface{}) {
	t.l.log(t.drive, "TaskPanic", [2]interface{}{ctx, v})
}
func (t *taskEm) TaskPanicRecovered(ctx context.Context, v interface{}) {
	t.l.log(t.drive, "TaskPanicRecovered", [2]interface{}{ctx, v})
}
func (t *taskEm) TaskDone(ctx context.Context, d time.Duration) {
	t.l.log(t.drive, "TaskDone", [2]interface{}{ctx, d})
}

type flowEm struct {
	l     *leaf
	drive int
}

func (l *leaf) FlowInit(fi *cff.FlowInfo) cff.FlowEmitter {
	d := driveOfName(fi.Name)
	l.log(d, "FlowInit", fi)
	return &flowEm{l, d}
}
func (f *flowEm) FlowSuccess(ctx context.Context) { f.l.log(f.drive, "FlowSuccess", ctx) }
func (f *flowEm) FlowError(ctx context.Context, err error) {
	f.l.log(f.drive, "FlowError", [2]interface{}{ctx, err})
}
func (f *flowEm) FlowDone(ctx context.Context, d time.Duration) {
	f.l.log(f.drive, "FlowDone", [2]interface{}{ctx, d})
}

type parEm struct {
	l     *leaf
	drive int
}

func (l *leaf) ParallelInit(pi *cff.ParallelInfo) cff.ParallelEmitter {
	d := driveOfName(pi.Name)
	l.log(d, "ParallelInit", pi)
	return &parEm{l, d}
}
func (p *parEm) ParallelSuccess(ctx context.Context) { p.l.log(p.drive, "ParallelSuccess", ctx) }
func (p *parEm) ParallelError(ctx context.Context, err error) {
	p.l.log(p.drive, "ParallelError", [2]interface{}{ctx, err})
}
func (p *parEm) ParallelDone(ctx context.Context, d time.Duration) {
	p.l.log(p.drive, "ParallelDone", [2]interface{}{ctx, d})
}

type schedEm struct {
	l     *leaf
	drive int
}

func (l *leaf) SchedulerInit(si *cff.SchedulerInfo) cff.SchedulerEmitter {
	d := driveOfName(si.Name)
	l.log(d, "SchedulerInit", si)
	return &schedEm{l, d}
}
func (s *schedEm) EmitScheduler(st cff.SchedulerState) { s.l.log(s.drive, "EmitScheduler", st) }

// ---------------------------------------------------------------------------

type node struct {
	em     cff.Emitter
	leaves []int // flattened recording leaves, in order
}

type viol struct {
	Case int    `json:"case"`
	Why  string `json:"why"`
	Desc string `json:"desc"`
}

type result struct {
	Cases         int `json:"cases"`
	Stacks        int `json:"stacks_built"`
	SharedParents int `json:"stacks_with_a_child_shared_with_another_stack"`
	Drives        int `json:"drives"`
	Events        int `json:"events_received"`
	MaxDepth      int `json:"max_nesting_depth"`
	Concurrent    int `json:"cases_with_concurrent_derivation"`
	Reused        int `json:"stacks_built_again_from_the_same_argument_slice"`
	ArgsMutated   int `json:"stacks_whose_argument_slice_was_overwritten_afterwards"`
	Distinct      int `json:"distinct_constructions"` // distinct construction descriptions with at least two stacks
	distinct      map[uint64]struct{}
	Viols         []viol `json:"viols,omitempty"`
}

// drive sends one unique event sequence through em and returns what every
// leaf of it must have received (method, payload) in order.
func drive(em cff.Emitter, d int, r *vc.Rand) []ev {
	var want []ev
	ctx := context.WithValue(context.Background(), driveKey{}, d)
	name := fmt.Sprintf("d%d", d)
	add := func(m string, pay interface{}) { want = append(want, ev{d, m, pay}) }
	di := &cff.DirectiveInfo{Name: name, Directive: cff.FlowDirective, File: "f.go", Line: d, Column: 1}
	// initialise everything first, then emit: emitters obtained early must stay
	// bound to the leaves of *this* stack
	ti := &cff.TaskInfo{Name: name, File: "f.go", Line: d, Column: 2}
	te := em.TaskInit(ti, di)
	add("TaskInit", [2]interface{}{ti, di})
	fi := &cff.FlowInfo{Name: name, File: "f.go", Line: d}
	fe := em.FlowInit(fi)
	add("FlowInit", fi)
	pi := &cff.ParallelInfo{Name: name, File: "f.go", Line: d}
	pe := em.ParallelInit(pi)
	add("ParallelInit", pi)
	si := &cff.SchedulerInfo{Name: name, Directive: cff.ParallelDirective, File: "f.go", Line: d}
	se := em.SchedulerInit(si)
	add("SchedulerInit", si)
	n := 4 + r.Intn(10)
	for k := 0; k < n; k++ {
		e := errors.New(fmt.Sprintf("err d%d #%d", d, k))
		pv := &struct{ D, K int }{d, k}
		dur := time.Duration(d*1000 + k)
		switch r.Intn(14) {
		case 0:
			te.TaskSuccess(ctx)
			add("TaskSuccess", ctx)
		case 1:
			te.TaskError(ctx, e)
			add("TaskError", [2]interface{}{ctx, e})
		case 2:
			te.TaskErrorRecovered(ctx, e)
			add("TaskErrorRecovered", [2]interface{}{ctx, e})
		case 3:
			te.TaskSkipped(ctx, e)
			add("TaskSkipped", [2]interface{}{ctx, e})
		case 4:
			te.TaskPanic(ctx, pv)
			add("TaskPanic", [2]interface{}{ctx, pv})
		case 5:
			te.TaskPanicRecovered(ctx, pv)
			add("TaskPanicRecovered", [2]interface{}{ctx, pv})
		case 6:
			te.TaskDone(ctx, dur)
			add("TaskDone", [2]interface{}{ctx, dur})
		case 7:
			fe.FlowSuccess(ctx)
			add("FlowSuccess", ctx)
		case 8:
			fe.FlowError(ctx, e)
			add("FlowError", [2]interface{}{ctx, e})
		case 9:
			fe.FlowDone(ctx, dur)
			add("FlowDone", [2]interface{}{ctx, dur})
		case 10:
			pe.ParallelSuccess(ctx)
			add("ParallelSuccess", ctx)
		case 11:
			pe.ParallelError(ctx, e)
			add("ParallelError", [2]interface{}{ctx, e})
		case 12:
			pe.ParallelDone(ctx, dur)
			add("ParallelDone", [2]interface{}{ctx, dur})
		case 13:
			st := cff.SchedulerState{Pending: d, Ready: k, Concurrency: 7}
			se.EmitScheduler(st)
			add("EmitScheduler", st)
		}
	}
	return want
}

func disjoint(a, b []int) bool {
	m := map[int]bool{}
	for _, x := range a {
		m[x] = true
	}
	for _, x := range b {
		if m[x] {
			return false
		}
	}
	return true
}

func runCase(seed uint64, idx int, res *result) {
	r := vc.NewRand(seed, 0xE517, uint64(idx))
	nLeaves := 2 + r.Intn(12)
	leaves := make([]*leaf, nLeaves)
	var nodes []*node
	depth := map[*node]int{}
	for i := range leaves {
		leaves[i] = &leaf{id: i}
		nodes = append(nodes, &node{em: leaves[i], leaves: []int{i}})
	}
	nop := &node{em: cff.NopEmitter()}
	nodes = append(nodes, nop)
	var desc []string
	var reused []*node
	usedAsChild := map[*node]int{}
	// an emitter that is never part of any stack: the caller writes it into its
	// own argument slice after EmitterStack has returned
	decoy := &leaf{id: nLeaves}
	leaves = append(leaves, decoy)
	build := func(args []*node) *node {
		ems := make([]cff.Emitter, len(args), len(args)+3)
		var fl []int
		dmax := 0
		var names []int
		for i, a := range args {
			ems[i] = a.em
			fl = append(fl, a.leaves...)
			if depth[a] > dmax {
				dmax = depth[a]
			}
			usedAsChild[a]++
			names = append(names, indexOf(nodes, a))
		}
		n := &node{em: cff.EmitterStack(ems...), leaves: fl}
		depth[n] = dmax + 1
		if depth[n] > res.MaxDepth {
			res.MaxDepth = depth[n]
		}
		nodes = append(nodes, n)
		desc = append(desc, fmt.Sprintf("n%d=Stack%v", len(nodes)-1, names))
		res.Stacks++
		if r.Chance(1, 3) {
			// the caller keeps its argument slice and builds a second stack from
			// it (a stack built once per call from a long-lived list of emitters)
			n2 := &node{em: cff.EmitterStack(ems...), leaves: fl}
			depth[n2] = dmax + 1
			nodes = append(nodes, n2)
			desc = append(desc, fmt.Sprintf("n%d=Stack%v(same slice again)", len(nodes)-1, names))
			res.Stacks++
			res.Reused++
			reused = append(reused, n2)
		}
		if r.Chance(1, 2) {
			// the caller goes on using its slice (it has spare capacity: appending
			// to it does not reallocate) - a stack must not alias it
			for i := range ems {
				ems[i] = decoy
			}
			_ = append(ems, decoy)
			res.ArgsMutated++
		}
		return n
	}
	pickArgs := func(k int, first *node) []*node {
		var args []*node
		var used []int
		if first != nil {
			args = append(args, first)
			used = append(used, first.leaves...)
		}
		if r.Chance(1, 4) {
			args = append(args, nop) // a no-op emitter among the arguments
		}
		for tries := 0; len(args) < k && tries < 40; tries++ {
			c := nodes[r.Intn(len(nodes))]
			if !disjoint(used, c.leaves) {
				continue
			}
			args = append(args, c)
			used = append(used, c.leaves...)
		}
		return args
	}
	var stacks []*node
	// shape 0: random forest; 1: one base extended many times (base first);
	// 2: base extended many times (base in a random position); 3: chains.
	shape := r.Intn(4)
	switch shape {
	case 0:
		for i := 0; i < 2+r.Intn(8); i++ {
			stacks = append(stacks, build(pickArgs(r.Intn(6), nil)))
		}
	case 1, 2:
		base := build(pickArgs(2+r.Intn(7), nil))
		stacks = append(stacks, base)
		for i := 0; i < 2+r.Intn(5); i++ {
			args := pickArgs(2+r.Intn(2), base)
			if shape == 2 && len(args) > 1 {
				j := r.Intn(len(args))
				args[0], args[j] = args[j], args[0]
			}
			stacks = append(stacks, build(args))
		}
	case 3:
		cur := build(pickArgs(2+r.Intn(3), nil))
		stacks = append(stacks, cur)
		for i := 0; i < 2+r.Intn(5); i++ {
			cur = build(pickArgs(2, cur))
			stacks = append(stacks, cur)
			if r.Chance(1, 2) { // a sibling derived from the same parent
				stacks = append(stacks, build(pickArgs(2, stacks[len(stacks)-2])))
			}
		}
	}
	if r.Chance(1, 4) && len(stacks) > 0 {
		// concurrent derivation from a shared base, as concurrent executions of
		// a directive with WithEmitter(base), WithEmitter(own) do
		res.Concurrent++
		base := stacks[r.Intn(len(stacks))]
		var free []*node
		for _, n := range nodes[:nLeaves] {
			if disjoint(base.leaves, n.leaves) {
				free = append(free, n)
			}
		}
		var mu sync.Mutex
		var wg sync.WaitGroup
		for _, f := range free {
			wg.Add(1)
			go func(f *node) {
				defer wg.Done()
				em := cff.EmitterStack(base.em, f.em)
				mu.Lock()
				n := &node{em: em, leaves: append(append([]int{}, base.leaves...), f.leaves...)}
				nodes = append(nodes, n)
				stacks = append(stacks, n)
				usedAsChild[base]++
				res.Stacks++
				mu.Unlock()
			}(f)
		}
		wg.Wait()
		desc = append(desc, fmt.Sprintf("+%d concurrent Stack[base,leaf]", len(free)))
	}
	for _, c := range usedAsChild {
		if c >= 2 {
			res.SharedParents++
		}
	}
	stacks = append(stacks, reused...)
	if len(stacks) >= 2 {
		h := uint64(1469598103934665603)
		for _, c := range []byte(fmt.Sprint(nLeaves, desc)) {
			h ^= uint64(c)
			h *= 1099511628211
		}
		if res.distinct == nil {
			res.distinct = map[uint64]struct{}{}
		}
		res.distinct[h] = struct{}{}
		res.Distinct = len(res.distinct)
	}
	// drive every stack (and some leaves directly), in random order
	order := r.Perm(len(stacks))
	want := map[int]map[int][]ev{} // leaf -> drive -> events
	for d, si := range order {
		s := stacks[si]
		w := drive(s.em, d, r)
		res.Drives++
		for _, l := range s.leaves {
			if want[l] == nil {
				want[l] = map[int][]ev{}
			}
			want[l][d] = w
		}
	}
	for li, l := range leaves {
		got := map[int][]ev{}
		for _, e := range l.ev {
			got[e.Stack] = append(got[e.Stack], e)
			res.Events++
		}
		for d, g := range got {
			w, ok := want[li][d]
			if !ok {
				res.Viols = append(res.Viols, viol{idx, fmt.Sprintf("emitter %d received %d events (first: %s) of drive %d, which went through a stack it is not part of", li, len(g), g[0].M, d), fmt.Sprint(desc)})
				return
			}
			if why := sameEvents(g, w); why != "" {
				res.Viols = append(res.Viols, viol{idx, fmt.Sprintf("emitter %d, drive %d: %s", li, d, why), fmt.Sprint(desc)})
				return
			}
		}
		for d, w := range want[li] {
			if _, ok := got[d]; !ok {
				res.Viols = append(res.Viols, viol{idx, fmt.Sprintf("emitter %d received nothing of drive %d (%d events), which went through a stack it is part of", li, d, len(w)), fmt.Sprint(desc)})
				return
			}
		}
	}
}

func indexOf(ns []*node, n *node) int {
	for i, x := range ns {
		if x == n {
			return i
		}
	}
	return -1
}

func sameEvents(got, want []ev) string {
	if len(got) != len(want) {
		return fmt.Sprintf("received %d events, %d were sent", len(got), len(want))
	}
	for i := range got {
		if got[i].M != want[i].M {
			return fmt.Sprintf("event #%d is %s, sent was %s", i, got[i].M, want[i].M)
		}
		if got[i].Pay != want[i].Pay {
			return fmt.Sprintf("event #%d (%s) carries payload %v, sent was %v", i, got[i].M, got[i].Pay, want[i].Pay)
		}
	}
	return ""
}

func main() {
	seed := flag.Uint64("seed", 1, "")
	cases := flag.Int("cases", 1000, "")
	out := flag.String("out", "", "")
	flag.Parse()
	res := &result{}
	for i := 0; i < *cases && len(res.Viols) < 10; i++ {
		res.Cases++
		runCase(*seed, i, res)
	}
	js, _ := json.Marshal(res)
	if *out == "" {
		os.Stdout.Write(js)
		return
	}
	os.WriteFile(*out, js, 0o644)
}
