//go:build verif

// schedh is the Engine S child process: it runs a range of scenarios of one
// family against the scheduler package and reports what the monitors saw.
package main

import (
	"encoding/json"
	"flag"
	"fmt"
	"os"

	"verif/sched"
)

func main() {
	seed := flag.Uint64("seed", 1, "")
	family := flag.String("family", "mix", "")
	from := flag.Int("from", 0, "")
	count := flag.Int("count", 100, "")
	quiet := flag.Bool("quiet", false, "race-build mode: no shared recorder")
	out := flag.String("out", "", "")
	progress := flag.String("progress", "", "")
	show := flag.Bool("show", false, "print the scenarios instead of running them")
	flag.Parse()
	if *show {
		for i := *from; i < *from+*count; i++ {
			b, _ := json.Marshal(sched.Generate(*seed, *family, i))
			fmt.Println(string(b))
		}
		return
	}
	br := sched.RunBatch(*seed, *family, *from, *count, *quiet, *progress)
	b, _ := json.Marshal(br)
	if *out == "" {
		os.Stdout.Write(b)
		return
	}
	if err := os.WriteFile(*out, b, 0o644); err != nil {
		fmt.Fprintln(os.Stderr, err)
		os.Exit(2)
	}
}
