package main

import (
	"fmt"
	"sort"
	"strings"
	"time"

	"verif/vc"
	"vg/prog"
)

// mergeCov combines the coverage of the engines a check used: counts add up,
// rules and samples are concatenated, every other key is prefixed.
func mergeCov(parts map[string]map[string]interface{}) map[string]interface{} {
	out := map[string]interface{}{}
	ev, dn := 0, 0
	var rules []string
	var samples []interface{}
	names := make([]string, 0, len(parts))
	for n := range parts {
		names = append(names, n)
	}
	sort.Strings(names)
	for _, n := range names {
		cov := parts[n]
		for k, v := range cov {
			switch k {
			case "evaluations":
				ev += toInt(v)
			case "distinct_nontrivial":
				dn += toInt(v)
			case "rule":
				rules = append(rules, fmt.Sprint(v))
			case "samples":
				switch s := v.(type) {
				case []interface{}:
					samples = append(samples, s...)
				default:
					samples = append(samples, sliceOf(v)...)
				}
			default:
				out[n+"."+k] = v
			}
		}
	}
	out["evaluations"] = ev
	out["distinct_nontrivial"] = dn
	rule := ""
	for i, r := range rules {
		if i > 0 {
			rule += "  ||  "
		}
		rule += r
	}
	out["rule"] = rule
	if len(samples) > 4 {
		samples = samples[:4]
	}
	out["samples"] = samples
	return out
}

func sliceOf(v interface{}) []interface{} {
	var out []interface{}
	switch s := v.(type) {
	case []string:
		for _, x := range s {
			out = append(out, x)
		}
	default:
		// json.RawMessage slices etc.
		b, _ := jsonMarshal(v)
		var arr []interface{}
		if jsonUnmarshal(b, &arr) == nil {
			return arr
		}
		out = append(out, v)
	}
	return out
}

func toInt(v interface{}) int {
	switch x := v.(type) {
	case int:
		return x
	case int64:
		return int(x)
	case float64:
		return int(x)
	}
	return 0
}

func writeEvidence(c *ctx, cov map[string]interface{}, assumptions []string) {
	cov["inconclusive"] = len(c.R.Incon)
	cov["known_findings_hit"] = c.R.KnownHits()
	if toInt(cov["distinct_nontrivial"]) < 2 || toInt(cov["evaluations"]) < 1 {
		// A run that observed (almost) nothing must not pass silently - unless it
		// stopped early because violations were found.
		if c.R.NumViolations() == 0 && c.RS == nil {
			c.R.Inconclusive(fmt.Sprintf("the run observed only %d evaluations / %d distinct non-trivial cases", toInt(cov["evaluations"]), toInt(cov["distinct_nontrivial"])))
		}
	}
	ev := &vc.Evidence{PropertyID: c.Prop, Tier: c.Tier, Seed: int64(c.Seed), Level: "exploration", Coverage: cov,
		Assumptions: assumptions, WallS: time.Since(c.R.Start).Seconds(), Violations: c.R.NumViolations()}
	if err := ev.Write(); err != nil {
		vc.Fatalf("writing evidence: %v", err)
	}
}

func both(c *ctx, s, g map[string]interface{}, more ...map[string]interface{}) {
	parts := map[string]map[string]interface{}{}
	if s != nil {
		parts["S"] = s
	}
	if g != nil {
		parts["G"] = g
	}
	for _, m := range more {
		if m != nil {
			parts["Gm"] = m // Engine G, modifier-mode corpus
		}
	}
	writeEvidence(c, mergeCov(parts), append(append([]string{}, assumeS...), assumeG...))
}

func violationsSoFar(c *ctx) bool { return c.R.NumViolations() >= 6 }

// genPart runs an Engine G corpus for the check's property.
func genPart(c *ctx, stream string, nFlows, nPars int, o prog.GenOpts, orders int, tags string, per int, race bool, nontrivial string) map[string]interface{} {
	if violationsSoFar(c) || (c.RS != nil && c.RS.Engine != "G") {
		return nil
	}
	progs := genPrograms(c.Seed, stream, nFlows, nPars, o, orders)
	co := prepare(c, progs, "base", race)
	if c.Prop == "C15" {
		// "Identifiers introduced by generated code never capture or shadow
		// names used in those expressions": an accepted program whose output
		// does not compile because of such a name refutes it.
		for _, p := range progs {
			why, dropped := co.Dropped[p.Name]
			if !dropped || !p.Shadow || !strings.Contains(why, "does not compile") {
				continue
			}
			c.R.Add(vc.Violation{Property: "C15", Case: p.Name, Why: "user variables named like generated identifiers are used in the directive's arguments and the generated code " + why,
				Obs:     map[string]string{"features": strings.Join(p.Features, ","), "compile_err": why},
				Witness: map[string]interface{}{"engine": "G", "source": readProgSource(co, p.Name), "generated": readProgGen(co, p.Name)}})
		}
	}
	ndrop := 0
	for name, why := range co.Dropped {
		if c.Prop == "C15" && strings.Contains(why, "does not compile") {
			if p := findProg(co, name); p != nil && p.Shadow {
				continue // reported above as a violation of C15
			}
		}
		ndrop++
	}
	if n := ndrop; n > 0 {
		// Well-formed programs that cff refuses, or whose output does not
		// compile, refute C14 / C13, not this property - but this check then ran
		// on less than its corpus and must say so.
		first := ""
		for name, why := range co.Dropped {
			if first == "" || name < first[:len(name)] {
				first = name + ": " + why
			}
		}
		c.R.Inconclusive(fmt.Sprintf("%d of %d generated programs could not be executed (see C13/C14), e.g. %s", n, len(progs), firstLines(first, 3)))
	}
	a := runGen(c, co, tags, per, race)
	cov := a.coverage(ruleG + nontrivial)
	cov["programs_generated_twice_the_first_time_against_an_earlier_version_of_their_helper_package"] = co.Decoys
	if race {
		cov["race_reports"] = a.RaceReports
	}
	return cov
}

// modPart runs an Engine G corpus generated in modifier mode (the flows that
// mode supports: Params, Results, Concurrency and plain Tasks) for the check's
// property.
func modPart(c *ctx, stream string, nFlows int, tags string, per int, nontrivial string) map[string]interface{} {
	if violationsSoFar(c) || (c.RS != nil && c.RS.Engine != "G") {
		return nil
	}
	mo := prog.DefaultOpts()
	mo.PredPct, mo.FallbackPct, mo.InstrPct, mo.WrapPct, mo.GenericPct = 0, 0, 0, 0, 0
	mo.NoInvoke = true
	mo.Spellings = []int{prog.SpLit, prog.SpLit, prog.SpTop, prog.SpMethod, prog.SpVar}
	progs := genPrograms(c.Seed, stream, nFlows, 0, mo, 1)
	for _, p := range progs {
		p.InMethod = false
	}
	co := prepare(c, progs, "modifier", false)
	if n := len(co.Dropped); n > 0 {
		first := ""
		for name, why := range co.Dropped {
			if first == "" || name < first[:len(name)] {
				first = name + ": " + why
			}
		}
		c.R.Inconclusive(fmt.Sprintf("%d of %d programs generated in modifier mode could not be executed (see C20), e.g. %s", n, len(progs), firstLines(first, 3)))
	}
	a := runGen(c, co, tags, per, false)
	return a.coverage("the same engine over flows generated with -genmode modifier (Params, Results, Concurrency and plain Tasks only); non-trivial: " + nontrivial)
}

func init() {
	checks["C01"] = func(c *ctx) {
		s := schedC01(c)
		o := prog.DefaultOpts()
		o.PredPct, o.EndPct = 35, 70
		g := genPart(c, "C01", c.pick(40, 500), c.pick(40, 500), o, 1, "ok,pred,fault", c.pick(4, 10), false,
			"at least two calls were logged in a flow with >= 2 functions or a Parallel with an End hook (order is judged against the abstract program's dependencies: providers, predicates, element calls of an End hook)")
		both(c, s, g)
	}
	checks["C02"] = func(c *ctx) {
		o := prog.DefaultOpts()
		o.FallbackPct, o.PredPct = 5, 15
		g := genPart(c, "C02", c.pick(70, 2000), 0, o, 3, "ok,conc,nest", c.pick(6, 12), false,
			"a flow with at least 3 functions, one of them with at least 2 inputs, executed without injected failures (each abstract flow is printed in 3 listing/option orders; all must match the same reference); 'conc': 4, 8 or 32 simultaneous executions of the same directive from as many goroutines, each with its own tokens, each judged on its own")
		both(c, nil, g)
	}
	checks["C03"] = func(c *ctx) {
		s := schedC03(c)
		o := prog.DefaultOpts()
		o.Wide = c.pick(40, 300)
		g := genPart(c, "C03", c.pick(40, 400), c.pick(40, 400), o, 1, "ok,fault,wide,widegx,goexit,nest,slowstate", c.pick(5, 12), false,
			"at least two user functions were in flight at once (exact in-flight counter in the stubs vs. the limit the directive was given, or max(GOMAXPROCS,4)); 'wide' programs: a Parallel or Flow of 6..25 independent functions, mostly without cff.Concurrency, every function held until as many are in flight as the limit allows plus 3 ms; 'widegx': the same after a third of the functions killed their goroutine with runtime.Goexit")
		both(c, s, g)
	}
	checks["C04"] = func(c *ctx) {
		o := prog.DefaultOpts()
		o.PredPct, o.FallbackPct = 35, 30
		o.ParMatrix = true
		g := genPart(c, "C04", c.pick(60, 1500), c.pick(60, 1500), o, 1, "panic,fault,one,nest,failprompt", c.pick(8, 14), false,
			"some user function actually panicked (string, error, struct, int, nil-map write, index out of range, non-comparable values, a *cff.PanicError) - task, predicate, parallel task, slice/map element function or End hook")
		m := modPart(c, "C04m", c.pick(30, 400), "panic,fault", c.pick(6, 12), "some task actually panicked")
		both(c, nil, g, m)
	}
	checks["C05"] = func(c *ctx) {
		s := schedC05(c)
		o := prog.DefaultOpts()
		o.PredPct, o.FallbackPct = 30, 30
		g := genPart(c, "C05", c.pick(40, 500), c.pick(40, 500), o, 1, "ok,pred,fault,panic,cancel,goexit,emitgx", c.pick(3, 8), false,
			"at least one user function was called (every execution must return; stuck-state detector as in Engine S)")
		both(c, s, g)
	}
	checks["C06"] = func(c *ctx) {
		s := schedC06(c)
		o := prog.DefaultOpts()
		o.InstrPct = 60 // (emitgx scenarios need programs with emitters)
		g := genPart(c, "C06", c.pick(40, 500), c.pick(40, 500), o, 1, "ok,fault,panic,cancel,conc,goexit,nest,emitgx", c.pick(3, 8), false,
			"at least one user function was called; after every execution the process must return to its goroutine baseline")
		both(c, s, g)
	}
	checks["C07"] = func(c *ctx) {
		s := schedC07(c)
		o := prog.DefaultOpts()
		o.ForceCOE = 2
		o.ParMatrix = true
		g := genPart(c, "C07", c.pick(100, 1500), c.pick(40, 1200), o, 1, "fault,panic,one,failprompt", c.pick(8, 14), false,
			"fail-fast directive in which some user function actually failed (error or panic): returned error identity, untouched Results sentinels, nothing downstream invoked")
		m := modPart(c, "C07m", c.pick(30, 400), "fault,one", c.pick(6, 12), "some task actually failed")
		both(c, s, g, m)
	}
	checks["C08"] = func(c *ctx) {
		s := schedC08(c)
		o := prog.DefaultOpts()
		o.ForceCOE = 1
		o.ParMatrix = true
		g := genPart(c, "C08", 0, c.pick(100, 2500), o, 1, "fault,panic,one", c.pick(8, 16), false,
			"Parallel with cff.ContinueOnError(expr) (expr true in 80% of the scenarios, false otherwise) in which some call actually failed")
		both(c, s, g)
	}
	checks["C09"] = func(c *ctx) {
		s := schedC09(c)
		o := prog.DefaultOpts()
		g := genPart(c, "C09", c.pick(50, 600), c.pick(50, 600), o, 1, "cancel", c.pick(8, 16), false,
			"the directive's context was cancelled before the call, inside a task body, by a helper once a given task had started, or (prompt return) while a task is held until the directive has returned")
		both(c, s, g)
	}
	checks["C10"] = func(c *ctx) {
		o := prog.DefaultOpts()
		o.EndPct, o.MaxColl = 60, 4
		o.ParMatrix = true
		g := genPart(c, "C10", 0, c.pick(120, 4000), o, 1, "ok,fault,one,bigend", c.pick(8, 12), false,
			"Parallel with at least two functions or at least two collection elements (exactly-once multiset of (index,element)/(key,value) tokens; End hook after every element call, never after a failed one)")
		both(c, nil, g)
	}
	checks["C11"] = func(c *ctx) {
		o := prog.DefaultOpts()
		o.PredPct, o.FallbackPct = 60, 50
		g := genPart(c, "C11", c.pick(90, 3000), 0, o, 1, "ok,pred,fault,predgate,one", c.pick(6, 12), false,
			"flow with at least one predicate or fallback; predicate outcomes {true,false,panic} x task outcomes {ok,error,panic}; predgate: a provider of another task input is held until the predicate has been entered; one: exactly one function fails, each in turn, by error and by panic")
		both(c, nil, g)
	}
	checks["C12"] = func(c *ctx) {
		s := schedC12(c)
		o := prog.DefaultOpts()
		o.PredPct, o.FallbackPct, o.InstrPct = 35, 30, 50
		g := genPart(c, "C12", c.pick(50, 400), c.pick(50, 400), o, 1, "ok,pred,fault,cancel,conc,nest", c.pick(4, 12), true,
			"any execution under the race detector in quiet mode (stubs share nothing; values only flow through generated plumbing)")
		parts := map[string]map[string]interface{}{}
		if s != nil {
			parts["S"] = s
		}
		if g != nil {
			parts["G"] = g
		}
		if e := emitPartRace(c, true); e != nil {
			parts["E"] = e
		}
		writeEvidence(c, mergeCov(parts), append(append([]string{}, assumeS...), assumeG...))
	}
	checks["C15"] = func(c *ctx) {
		o := prog.DefaultOpts()
		o.WrapPct, o.InstrPct, o.PredPct, o.FallbackPct, o.ShadowPct, o.BarePct = 50, 50, 30, 30, 50, 35
		g := genPart(c, "C15", c.pick(60, 1500), c.pick(60, 1500), o, 2, "ok,fault", c.pick(3, 6), false,
			"every argument expression of the directive is wrapped in a logging identity function (>= 3 sites): ctx, Params, Results, Concurrency, ContinueOnError, emitters, instrument names, task/predicate/element/End function expressions, FallbackWith values, collections; "+
				"or (40% of the programs, 'bare') every argument is a plain local variable - named like a generated identifier where types allow - that the program overwrites with a recognisable replacement (poison token, twin function, marked context, dummy pointer, replacement emitter/name) when the first user function is entered: any replacement observed later means the argument was not evaluated before the tasks started")
		both(c, nil, g)
	}
	checks["C18"] = func(c *ctx) {
		o := prog.DefaultOpts()
		o.InstrPct, o.PredPct, o.FallbackPct = 100, 35, 35
		g := genPart(c, "C18", c.pick(70, 2000), c.pick(50, 1500), o, 1, "ok,pred,fault,panic", c.pick(5, 10), false,
			"at least one emitter event was recorded (1..3 WithEmitter options, each a stack of 1..3 recording emitters, nested via cff.EmitterStack; any subset of tasks instrumented; -auto-instrument for a third of the instrumented flows)")
		parts := map[string]map[string]interface{}{}
		if g != nil {
			parts["G"] = g
		}
		if e := emitPart(c); e != nil {
			parts["E"] = e
		}
		writeEvidence(c, mergeCov(parts), append([]string{"Engine E drives the emitter interfaces directly; which events generated code emits is Engine G's part"}, assumeG...))
	}
	checks["C19"] = func(c *ctx) {
		s := schedC19(c)
		o := prog.DefaultOpts()
		o.InstrPct, o.PredPct, o.FallbackPct = 100, 20, 20
		g := genPart(c, "C19", c.pick(40, 400), c.pick(40, 400), o, 1, "state", c.pick(1, 3), false,
			"a cff.SchedulerEmitter (through WithEmitter, default flush interval) received at least one state report: one function is held until the first report arrives, the report releases it and lingers 2 ms inside EmitScheduler; "+
				"every report is checked (counts, Concurrency = the directive's limit, Pending <= the directive's jobs) and none may still be in delivery when the directive has returned nil")
		both(c, s, g)
	}
}
