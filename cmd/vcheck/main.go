// vcheck is the driver: `vcheck <Cxx> [--tier quick|thorough] [--replay path]`.
// It rebuilds what the check needs from /repo's working tree, runs the
// monitors, writes evidence/<id>.json, and exits 0 (held) or 1 (violation).
package main

import (
	"flag"
	"fmt"
	"os"
	"sort"

	"verif/vc"
)

type checkFn func(c *ctx)

type ctx struct {
	Prop   string
	Tier   string
	Seed   uint64
	Thor   bool
	Replay string
	R      *vc.Report
	// RS is set by --replay: the witnessed case to run again (and nothing else).
	RS *replaySpec
	// AlsoProps: violations an engine tags with one of these properties count
	// as violations of Prop in this run (C20 reuses the dataflow oracles).
	AlsoProps []string
}

// pick returns q in the quick tier and t in the thorough tier.
func (c *ctx) pick(q, t int) int {
	if c.Thor {
		return t
	}
	return q
}

// scale turns a base case count into the tier's count (Engine S: a scenario
// costs a few milliseconds, so quick runs 8x and thorough 250x the base).
func (c *ctx) scale(base int) int {
	if c.Thor {
		return base * 250
	}
	return base * 8
}

var checks = map[string]checkFn{}

func main() {
	if len(os.Args) < 2 {
		usage()
	}
	prop := os.Args[1]
	fs := flag.NewFlagSet("vcheck", flag.ExitOnError)
	tier := fs.String("tier", os.Getenv("VERIF_TIER"), "quick|thorough")
	replay := fs.String("replay", "", "witness file to replay")
	fs.Parse(os.Args[2:])
	if *tier == "" {
		*tier = "quick"
	}
	if *tier != "quick" && *tier != "thorough" {
		usage()
	}
	fn, ok := checks[prop]
	if !ok {
		usage()
	}
	c := &ctx{Prop: prop, Tier: *tier, Seed: vc.Seed(), Thor: *tier == "thorough", Replay: *replay}
	if *replay != "" {
		c.RS = loadReplay(*replay)
		c.Seed = c.RS.Seed
		// a replay never touches the committed evidence
		vc.OutDir = vc.WorkDir("replay-out")
	}
	c.R = vc.NewReport(prop, *tier)
	code := 0
	func() {
		defer vc.Cleanup()
		fn(c)
		if c.RS != nil {
			n := c.R.KeepOnlyCase(c.RS.Case)
			if n == 0 {
				fmt.Printf("NOT-REPRODUCED property=%s case=%s (the witnessed case was run again %s and held; scheduling-dependent violations may need several replays)\n", prop, c.RS.Case, c.RS.how)
			}
			vc.OutDir = vc.VerifDir // witnesses of a reproduced violation go where the others are
		}
		code = c.R.Finish()
	}()
	os.Exit(code)
}

func usage() {
	var ids []string
	for id := range checks {
		ids = append(ids, id)
	}
	sort.Strings(ids)
	fmt.Fprintf(os.Stderr, "usage: vcheck <property> [--tier quick|thorough] [--replay path]\nproperties: %v\n", ids)
	os.Exit(2)
}
