package main

import (
	"encoding/json"
	"os"

	"verif/vc"
)

// replaySpec is what --replay reads from a witness file (a vc.Violation as
// written by Report.Finish).
type replaySpec struct {
	Case   string
	Seed   uint64
	Engine string // S, G, E, T
	// Engine S
	Family string
	Index  int
	// Engine G
	Program string
	Tag     string
	Idx     int
	// Engine E
	ECase int
	how   string
}

func loadReplay(path string) *replaySpec {
	b, err := os.ReadFile(path)
	if err != nil {
		vc.Fatalf("replay: %v", err)
	}
	var v struct {
		Case    string `json:"case"`
		Witness struct {
			Engine   string          `json:"engine"`
			Seed     uint64          `json:"seed"`
			Family   string          `json:"family"`
			Index    int             `json:"index"`
			Program  string          `json:"program"`
			Case     int             `json:"case"`
			Scenario json.RawMessage `json:"scenario"`
		} `json:"witness"`
	}
	if err := json.Unmarshal(b, &v); err != nil {
		vc.Fatalf("replay: %s: %v", path, err)
	}
	rs := &replaySpec{Case: v.Case, Seed: v.Witness.Seed, Engine: v.Witness.Engine, Family: v.Witness.Family, Index: v.Witness.Index, Program: v.Witness.Program, ECase: v.Witness.Case}
	if rs.Seed == 0 {
		rs.Seed = vc.Seed()
	}
	switch rs.Engine {
	case "S":
		rs.how = "200 times in fresh processes"
	case "G":
		// case = program/tag/idx
		var tag struct {
			Tag string `json:"tag"`
		}
		json.Unmarshal(v.Witness.Scenario, &tag)
		rs.Tag = tag.Tag
		rs.Idx = lastInt(v.Case)
		if parts := splitCase(v.Case); len(parts) == 3 {
			rs.Tag = parts[1]
		}
		rs.how = "(its program, scenarios 0.." + itoa(rs.Idx) + " of that family, 20 fresh processes)"
	case "E":
		rs.how = "once (deterministic)"
	default:
		rs.Engine = "T"
		rs.how = "by running the whole check at the witness's seed (Engine T is deterministic)"
	}
	return rs
}

func splitCase(s string) []string {
	var out []string
	cur := ""
	for _, ch := range s {
		if ch == '/' {
			out = append(out, cur)
			cur = ""
			continue
		}
		cur += string(ch)
	}
	return append(out, cur)
}

func lastInt(s string) int {
	n, mul := 0, 1
	for i := len(s) - 1; i >= 0 && s[i] >= '0' && s[i] <= '9'; i-- {
		n += int(s[i]-'0') * mul
		mul *= 10
	}
	return n
}

func itoa(n int) string {
	if n == 0 {
		return "0"
	}
	s := ""
	for n > 0 {
		s = string(rune('0'+n%10)) + s
		n /= 10
	}
	return s
}
