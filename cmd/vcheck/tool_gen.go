package main

import (
	"fmt"
	"strconv"
	"strings"

	"vg/prog"
)

// ---------------------------------------------------------------------------
// Static input files for Engine T: type-correct packages that are fed to the
// cff binary but never executed. They exercise what the tool must cope with:
// several directives per function and per file, arbitrary surrounding code,
// import spellings, identifiers named like generated ones.

type staticFile struct {
	Pkg      string
	Name     string // file name
	Src      string
	Features []string
	// expectation: "accept" (exit 0, output compiles, no residual directive) or
	// "diagnostic" (non-zero exit with a positioned diagnostic, no crash)
	Expect     string
	Directives int
}

var surroundDecls = []string{
	"type pair%[1]d struct {\n\tA, B int\n}\n\nfunc (p pair%[1]d) Sum() int { return p.A + p.B }\n",
	"const (\n\tk%[1]da = iota\n\tk%[1]db\n\tk%[1]dc = \"x\" + \"y\"\n)\n",
	"var tbl%[1]d = map[string][]int{\n\t\"a\": {1, 2, 3},\n\t\"b\": nil,\n}\n",
	"type num%[1]d interface {\n\t~int | ~int64 | ~float64\n}\n\nfunc sum%[1]d[T num%[1]d](xs ...T) (s T) {\n\tfor _, x := range xs {\n\t\ts += x\n\t}\n\treturn s\n}\n",
	"// doc comment for init\nfunc init() {\n\tif len(tblinit) > 100 {\n\t\tpanic(\"unreachable\")\n\t}\n}\n",
	"type iface%[1]d interface {\n\tDo(context.Context) error\n}\n\ntype impl%[1]d struct{ n int }\n\nfunc (i *impl%[1]d) Do(ctx context.Context) error {\n\tselect {\n\tcase <-ctx.Done():\n\t\treturn ctx.Err()\n\tdefault:\n\t}\n\ti.n++\n\treturn nil\n}\n\nvar _ iface%[1]d = (*impl%[1]d)(nil)\n",
	"func closure%[1]d() func() int {\n\tn := 0\n\treturn func() int {\n\t\tdefer func() { n++ }()\n\t\treturn n\n\t}\n}\n",
	"/* block comment\n   spanning lines */\nvar (\n\tarr%[1]d = [...]string{2: \"c\", 0: \"a\"}\n\tfn%[1]d  = func(a, b int) int { return a<<2 | b&^1 }\n)\n",
}

var surroundStmts = []string{
	"\tn%[1]d := 0\nouter%[1]d:\n\tfor i := 0; i < 3; i++ {\n\t\tfor j := 0; j < 3; j++ {\n\t\t\tif j == 2 {\n\t\t\t\tcontinue outer%[1]d\n\t\t\t}\n\t\t\tn%[1]d += i * j\n\t\t}\n\t}\n\t_ = n%[1]d\n",
	"\tswitch v%[1]dx := interface{}(total).(type) {\n\tcase int:\n\t\ttotal += v%[1]dx % 1\n\tcase string:\n\t\ttotal++\n\tdefault:\n\t}\n",
	"\tdefer func() {\n\t\tif r := recover(); r != nil {\n\t\t\ttotal = -1\n\t\t}\n\t}()\n",
	"\tch%[1]d := make(chan int, 1)\n\tselect {\n\tcase ch%[1]d <- 1:\n\tdefault:\n\t}\n\ttotal += <-ch%[1]d\n",
	"\t{\n\t\ttotal := total // shadow\n\t\ttotal *= 2\n\t\t_ = total\n\t}\n",
	"\tif x := len(\"abc\"); x > 2 && total >= 0 {\n\t\ttotal += x\n\t} else if x < 0 {\n\t\tgoto done%[1]d\n\t}\ndone%[1]d:\n",
}

// subst replaces the %[1]d markers of a surrounding-code template by k
// (templates contain literal % operators, so they are not format strings).
func subst(tpl string, k int) string {
	return strings.ReplaceAll(tpl, "%[1]d", strconv.Itoa(k))
}

// smallDirective prints a self-contained directive over basic types; k makes
// the value types of different directives distinct where that matters.
func smallDirective(r *prog.Rand, k int, cffName, ctxName string) (stmt string, isFlow bool) {
	switch r.Intn(5) {
	case 0, 1:
		return fmt.Sprintf("\t{\n\t\tvar out%[1]d string\n\t\tif err := %[2]s.Flow(%[3]s,\n\t\t\t%[2]s.Params(total, int64(%[1]d)),\n\t\t\t%[2]s.Results(&out%[1]d),\n\t\t\t%[2]s.Task(func(a int, b int64) (uint8, error) { return uint8(a) + uint8(b), nil }),\n\t\t\t%[2]s.Task(func(c uint8) string { return strings.Repeat(\"x\", int(c%%3)) }),\n\t\t); err != nil {\n\t\t\treturn total, err\n\t\t}\n\t\ttotal += len(out%[1]d)\n\t}\n", k, cffName, ctxName), true
	case 2:
		return fmt.Sprintf("\tvar f%[1]d float64\n\terr%[1]d := %[2]s.Flow(%[3]s,\n\t\t%[2]s.Concurrency(2),\n\t\t%[2]s.Results(&f%[1]d),\n\t\t%[2]s.Task(func(ctx context.Context) (int32, error) { return int32(total), ctx.Err() }),\n\t\t%[2]s.Task(func(v int32) (float64, bool) { return float64(v) / 2, v > 0 }),\n\t\t%[2]s.Task(func(b bool) error {\n\t\t\tif !b {\n\t\t\t\treturn nil\n\t\t\t}\n\t\t\treturn nil\n\t\t}, %[2]s.Invoke(true)),\n\t)\n\tif err%[1]d != nil {\n\t\treturn 0, err%[1]d\n\t}\n\ttotal += int(f%[1]d)\n", k, cffName, ctxName), true
	case 3:
		return fmt.Sprintf("\titems%[1]d := []string{\"a\", \"bb\", \"ccc\"}\n\tlens%[1]d := make([]int, len(items%[1]d))\n\tif err := %[2]s.Parallel(%[3]s,\n\t\t%[2]s.Concurrency(3),\n\t\t%[2]s.Slice(func(i int, s string) { lens%[1]d[i] = len(s) }, items%[1]d),\n\t\t%[2]s.Task(func() error { return nil }),\n\t); err != nil {\n\t\treturn total, err\n\t}\n\ttotal += lens%[1]d[2]\n", k, cffName, ctxName), false
	default:
		return fmt.Sprintf("\tm%[1]d := map[string]int{\"k\": %[1]d}\n\tvar seen%[1]d int\n\terr%[1]d := %[2]s.Parallel(%[3]s,\n\t\t%[2]s.Map(func(ctx context.Context, k string, v int) error {\n\t\t\tseen%[1]d = v + len(k)\n\t\t\treturn nil\n\t\t}, m%[1]d, %[2]s.MapEnd(func() { seen%[1]d++ })),\n\t\t%[2]s.Tasks(func() {}, func(context.Context) error { return nil }),\n\t)\n\tif err%[1]d != nil {\n\t\treturn total, err%[1]d\n\t}\n\ttotal += seen%[1]d\n", k, cffName, ctxName), false
	}
}

// genStaticFile builds one type-correct cff file with several functions and
// directives and arbitrary surrounding code.
func genStaticFile(r *prog.Rand, pkg, fname string, fileIdx int, header string) *staticFile {
	sf := &staticFile{Pkg: pkg, Name: fname, Expect: "accept"}
	var b strings.Builder
	if header == "" {
		header = "//go:build cff\n"
	}
	b.WriteString(header)
	fmt.Fprintf(&b, "\n// Package %s is a generated input for the cff tool.\npackage %s\n\n", pkg, pkg)
	cffName := "cff"
	imports := []string{"\"context\"", "\"strings\""}
	switch r.Intn(4) {
	case 0:
		cffName = "flows"
		imports = append(imports, "flows \"go.uber.org/cff\"")
		sf.Features = append(sf.Features, "cff-aliased")
	default:
		imports = append(imports, "\"go.uber.org/cff\"")
	}
	hasFmt := r.Chance(1, 3)
	if hasFmt {
		imports = append(imports, "\"fmt\"")
	}
	b.WriteString("import (\n")
	for _, i := range imports {
		b.WriteString("\t" + i + "\n")
	}
	b.WriteString(")\n\n")
	if hasFmt {
		b.WriteString("var _ = fmt.Sprint\n\n")
	}
	b.WriteString("var _ = strings.Repeat\n\n")
	tag := fileIdx * 100
	initDone := false
	nd := r.Intn(4)
	for i := 0; i < nd; i++ {
		d := surroundDecls[r.Intn(len(surroundDecls))]
		if strings.Contains(d, "tblinit") && (fileIdx != 0 || initDone) {
			continue
		}
		b.WriteString(subst(d, tag+i) + "\n")
		if strings.Contains(d, "func init()") {
			// init refers to tblinit: declare it (once per package)
			b.WriteString("var tblinit = map[string]int{}\n\n")
			initDone = true
		}
	}
	nf := 1 + r.Intn(3)
	k := tag
	for f := 0; f < nf; f++ {
		ctxName := "ctx"
		fmt.Fprintf(&b, "// Fn%d_%d runs a few directives.\nfunc Fn%d_%d(ctx context.Context, total int) (int, error) {\n", fileIdx, f, fileIdx, f)
		ndir := 1 + r.Intn(3)
		for d := 0; d < ndir; d++ {
			if r.Chance(1, 2) {
				b.WriteString(subst(surroundStmts[r.Intn(len(surroundStmts))], k))
				k++
			}
			st, _ := smallDirective(r, k, cffName, ctxName)
			k++
			b.WriteString(st)
			sf.Directives++
		}
		if r.Chance(1, 2) {
			b.WriteString(subst(surroundStmts[r.Intn(len(surroundStmts))], k))
			k++
		}
		b.WriteString("\treturn total, nil\n}\n\n")
	}
	nd = r.Intn(3)
	for i := 0; i < nd; i++ {
		d := surroundDecls[r.Intn(len(surroundDecls))]
		if strings.Contains(d, "tblinit") {
			continue
		}
		b.WriteString(subst(d, tag+50+i) + "\n")
	}
	// a non-directive use of the cff package must survive untouched
	fmt.Fprintf(&b, "var emitters%d = %s.EmitterStack(%s.NopEmitter())\n", fileIdx, cffName, cffName)
	sf.Src = b.String()
	return sf
}

// ---------------------------------------------------------------------------
// Hazard templates: spellings the property's quantifier lists explicitly.

type hazard struct {
	Feature string
	Expect  string            // accept | diagnostic
	Files   map[string]string // relative path -> content (first key p.go is the cff file)
}

func hazards() []hazard {
	hdr := "//go:build cff\n\npackage PKGNAME\n\n"
	var hs []hazard
	add := func(feature, expect, body string, extra map[string]string) {
		files := map[string]string{"p.go": hdr + body}
		for k, v := range extra {
			files[k] = v
		}
		hs = append(hs, hazard{Feature: feature, Expect: expect, Files: files})
	}
	flow := func(cffName string) string {
		return fmt.Sprintf("\tvar out string\n\terr := %[1]s.Flow(ctx,\n\t\t%[1]s.Params(n),\n\t\t%[1]s.Results(&out),\n\t\t%[1]s.Task(func(i int) (string, error) { return string(rune('a' + i%%26)), nil }),\n\t)\n\treturn out, err\n", cffName)
	}
	add("time-import-aliased", "accept",
		"import (\n\t\"context\"\n\ttm \"time\"\n\n\t\"go.uber.org/cff\"\n)\n\nvar _ = tm.Second\n\nfunc Run(ctx context.Context, n int) (string, error) {\n"+flow("cff")+"}\n", nil)
	add("context-import-aliased", "accept",
		"import (\n\tc2 \"context\"\n\n\t\"go.uber.org/cff\"\n)\n\nfunc Run(ctx c2.Context, n int) (string, error) {\n"+flow("cff")+"}\n", nil)
	add("cff-import-aliased", "accept",
		"import (\n\t\"context\"\n\n\tkk \"go.uber.org/cff\"\n)\n\nfunc Run(ctx context.Context, n int) (string, error) {\n"+flow("kk")+"}\n", nil)
	add("debug-import-colliding", "accept",
		"import (\n\t\"context\"\n\n\t\"go.uber.org/cff\"\n\t\"scratch/HZ/debug\"\n)\n\nvar _ = debug.X\n\nfunc Run(ctx context.Context, n int) (string, error) {\n"+flow("cff")+"}\n",
		map[string]string{"debug/d.go": "package debug\n\nconst X = 1\n"})
	for _, id := range []string{"debug", "time", "cff", "context"} {
		body := "import (\n\t\"context\"\n\n\t\"go.uber.org/cff\"\n)\n\nfunc Run(ctx context.Context, n int) (string, error) {\n\tvar out string\n\terr := cff.Flow(ctx,\n\t\tcff.Params(n),\n\t\tcff.Results(&out),\n\t\tcff.Task(func(i int) (string, error) { return string(rune('a' + i%26)), nil }),\n\t)\n\treturn out, err\n}\n"
		switch id {
		case "cff", "context":
			// a parameter named like the package, declared after the package was last needed by the user
			body = strings.Replace(body, "func Run(ctx context.Context, n int) (string, error) {\n", "func Run(ctx context.Context, n int) (string, error) {\n\treturn run2(ctx, n, 0)\n}\n\nfunc run2(ctx context.Context, n int, x int) (string, error) {\n\t_ = x\n", 1)
			_ = id
			continue // cannot shadow cff/context and still write the directive
		default:
			body = strings.Replace(body, "\tvar out string\n", "\t"+id+" := n + 1\n\t_ = "+id+"\n\tvar out string\n", 1)
		}
		add("local-ident-named-like-pkg:"+id, "accept", body, nil)
	}
	for _, id := range []string{"ctx", "err", "sched", "emitter", "tasks", "task0", "v1", "flowInfo", "startTime", "schedEmitter", "schedInfo", "flowEmitter"} {
		decl := id + " := n * 2\n\t_ = " + id
		use := id
		if id == "ctx" {
			// the user's context variable is called something else and ctx is an int
			body := "import (\n\tcontext \"context\"\n\n\t\"go.uber.org/cff\"\n)\n\nfunc Run(c context.Context, n int) (string, error) {\n\tctx := n * 2\n\tvar out string\n\terr := cff.Flow(c,\n\t\tcff.Params(ctx),\n\t\tcff.Results(&out),\n\t\tcff.Task(func(i int) (string, error) { return string(rune('a' + i%26)), nil }),\n\t)\n\treturn out, err\n}\n"
			add("user-ident-named-like-generated:ctx", "accept", body, nil)
			continue
		}
		if id == "err" {
			body := "import (\n\t\"context\"\n\t\"errors\"\n\n\t\"go.uber.org/cff\"\n)\n\nfunc Run(ctx context.Context, n int) (int, error) {\n\terr := errors.New(\"mine\")\n\tvar out int\n\terr2 := cff.Flow(ctx,\n\t\tcff.Params(err.Error()),\n\t\tcff.Results(&out),\n\t\tcff.Task(func(s string) (int, error) { return len(s) + n, nil }),\n\t)\n\treturn out, err2\n}\n"
			add("user-ident-named-like-generated:err", "accept", body, nil)
			continue
		}
		body := "import (\n\t\"context\"\n\n\t\"go.uber.org/cff\"\n)\n\nfunc Run(ctx context.Context, n int) (string, error) {\n\t" + decl + "\n\tvar out string\n\te := cff.Flow(ctx,\n\t\tcff.Params(" + use + "),\n\t\tcff.Results(&out),\n\t\tcff.Task(func(i int) (string, error) { return string(rune('a' + i%26)), nil }),\n\t)\n\treturn out, e\n}\n"
		add("user-ident-named-like-generated:"+id, "accept", body, nil)
	}
	add("import-named-like-generated:v1", "accept",
		"import (\n\t\"context\"\n\n\t\"go.uber.org/cff\"\n\tv1 \"scratch/HZ/api\"\n)\n\nfunc Run(ctx context.Context, n int) (v1.Pod, error) {\n\tvar out v1.Pod\n\terr := cff.Flow(ctx,\n\t\tcff.Params(n),\n\t\tcff.Results(&out),\n\t\tcff.Task(func(i int) (v1.Spec, error) { return v1.Spec{N: i}, nil }),\n\t\tcff.Task(func(s v1.Spec) v1.Pod { return v1.Pod{S: s} }),\n\t)\n\treturn out, err\n}\n",
		map[string]string{"api/a.go": "package api\n\ntype Spec struct{ N int }\n\ntype Pod struct{ S Spec }\n"})
	add("type-from-unimported-package", "accept",
		"import (\n\t\"context\"\n\n\t\"go.uber.org/cff\"\n\t\"scratch/HZ/ha\"\n)\n\nfunc Run(ctx context.Context, n int) (string, error) {\n\tvar out string\n\terr := cff.Flow(ctx,\n\t\tcff.Params(n),\n\t\tcff.Results(&out),\n\t\tcff.Task(ha.Make),\n\t\tcff.Task(ha.Show),\n\t)\n\treturn out, err\n}\n",
		map[string]string{"ha/a.go": "package ha\n\nimport \"scratch/HZ/hb\"\n\nfunc Make(i int) hb.X { return hb.X{N: i} }\n\nfunc Show(x hb.X) string { return x.String() }\n",
			"hb/b.go": "package hb\n\nimport \"fmt\"\n\ntype X struct{ N int }\n\nfunc (x X) String() string { return fmt.Sprint(x.N) }\n"})
	// The type of a value can live in a package the file does not import (it is
	// reached through an imported function's signature): the generator has to
	// add the import and qualify the type by the name that import binds.
	unimp := func(feature, viaPath, viaPkg, tyPath, tyPkg, tyDecl, tyExpr, extraImport, extraUse string) {
		body := "import (\n\t\"context\"\n\n\t\"go.uber.org/cff\"\n\t\"scratch/HZ/" + viaPath + "\"\n" + extraImport + ")\n\n" + extraUse +
			"func Run(ctx context.Context, n int) (string, error) {\n\tvar out string\n\terr := cff.Flow(ctx,\n\t\tcff.Params(n),\n\t\tcff.Results(&out),\n\t\tcff.Task(" + viaPkg + ".Make),\n\t\tcff.Task(" + viaPkg + ".Show),\n\t)\n\treturn out, err\n}\n"
		tyFile := tyPath + "/t.go"
		add(feature, "accept", body, map[string]string{
			viaPath + "/a.go": "package " + viaPkg + "\n\nimport (\n\t\"fmt\"\n\n\t\"scratch/HZ/" + tyPath + "\"\n)\n\nfunc Make(i int) " + tyExpr + " { var z " + tyExpr + "; _ = i; return z }\n\nfunc Show(x " + tyExpr + ") string { return fmt.Sprint(x) }\n",
			tyFile:            "package " + tyPkg + "\n\n" + tyDecl + "\n",
		})
	}
	unimp("unimported-package-name-differs-from-path:v2", "hv", "hv", "thing/v2", "thing", "type Thing struct{ N int }", "*thing.Thing", "", "")
	unimp("unimported-package-name-differs-from-path:dash", "hd", "hd", "my-pkg", "mypkg", "type T struct{ N int }", "mypkg.T", "", "")
	unimp("unimported-package-name-differs-from-path:go-prefix", "hg", "hg", "go-shape", "shape", "type Sq struct{ N int }", "[]shape.Sq", "", "")
	unimp("unimported-package-same-name-as-imported", "hs", "hs", "two/util", "util", "type U struct{ N int }", "map[string]util.U", "\t\"scratch/HZ/one/util\"\n", "var _ = util.One\n\n")
	hs[len(hs)-1].Files["one/util/u.go"] = "package util\n\nconst One = 1\n"
	unimp("unimported-package-generic-type", "hq", "hq", "box", "box", "type Box[T any] struct{ V T }\n\ntype X struct{ N int }", "box.Box[box.X]", "", "")
	unimp("unimported-package-named-like-file-ident", "hn", "hn", "cfg", "cfg", "type C struct{ N int }", "cfg.C", "", "var cfg = 3\n\nvar _ = cfg\n\n")
	// Several directives in one file, each needing a different package that the
	// file does not import, the packages sharing one name: the names handed out
	// for one directive's imports must stay taken for the next directive.
	{
		via := func(pkg, ty string) string {
			return "package " + pkg + "\n\nimport (\n\t\"fmt\"\n\n\t\"scratch/HZ/" + ty + "/util\"\n)\n\nfunc Make(i int) util.U { return util.U{N: i} }\n\nfunc Show(x util.U) string { return fmt.Sprint(x) }\n"
		}
		fl := func(name, pkg string) string {
			return "func " + name + "(ctx context.Context, n int) (string, error) {\n\tvar out string\n\terr := cff.Flow(ctx,\n\t\tcff.Params(n),\n\t\tcff.Results(&out),\n\t\tcff.Task(" + pkg + ".Make),\n\t\tcff.Task(" + pkg + ".Show),\n\t)\n\treturn out, err\n}\n"
		}
		files := map[string]string{
			"va/a.go": via("va", "one"), "vb/b.go": via("vb", "two"),
			"one/util/u.go": "package util\n\ntype U struct{ N int }\n", "two/util/u.go": "package util\n\ntype U struct{ N, M int }\n",
		}
		imp := "import (\n\t\"context\"\n\n\t\"go.uber.org/cff\"\n\t\"scratch/HZ/va\"\n\t\"scratch/HZ/vb\"\n)\n\n"
		add("two-directives-needing-unimported-packages-of-one-name", "accept", imp+fl("Run", "va")+"\n"+fl("Run2", "vb"), files)
		add("three-directives-needing-unimported-packages-of-one-name", "accept", imp+fl("Run", "va")+"\n"+fl("Run2", "vb")+"\n"+fl("Run3", "va"), files)
		add("directives-needing-unimported-package-named-like-added-import", "accept",
			"import (\n\t\"context\"\n\n\t\"go.uber.org/cff\"\n\t\"scratch/HZ/vt\"\n)\n\n"+fl("Run", "vt")+"\n"+fl("Run2", "vt"),
			map[string]string{"vt/a.go": "package vt\n\nimport (\n\t\"fmt\"\n\n\t\"scratch/HZ/my/time\"\n)\n\nfunc Make(i int) time.T { return time.T{N: i} }\n\nfunc Show(x time.T) string { return fmt.Sprint(x) }\n",
				"my/time/t.go": "package time\n\ntype T struct{ N int }\n"})
	}
	// The same package imported twice under different names, or blank: whatever
	// name the generated code picks for it must be one the file binds, and must
	// be the same in every process.
	add("double-import:time", "accept",
		"import (\n\t\"context\"\n\t\"time\"\n\tstdtime \"time\"\n\n\t\"go.uber.org/cff\"\n)\n\nvar _ = time.Second + stdtime.Second\n\nfunc Run(ctx context.Context, n int) (string, error) {\n"+flow("cff")+"}\n", nil)
	add("double-import:context", "accept",
		"import (\n\t\"context\"\n\tstdctx \"context\"\n\n\t\"go.uber.org/cff\"\n)\n\nvar _ = stdctx.Background\n\nfunc Run(ctx context.Context, n int) (string, error) {\n"+flow("cff")+"}\n", nil)
	add("double-import:cff", "accept",
		"import (\n\t\"context\"\n\n\t\"go.uber.org/cff\"\n\tflows \"go.uber.org/cff\"\n)\n\nvar _ = flows.NopEmitter\n\nfunc Run(ctx context.Context, n int) (string, error) {\n"+flow("cff")+"}\n", nil)
	add("double-import:type-package", "accept",
		"import (\n\t\"context\"\n\n\t\"go.uber.org/cff\"\n\tapia \"scratch/HZ/api\"\n\tapib \"scratch/HZ/api\"\n)\n\nfunc Run(ctx context.Context, n int) (apia.Pod, error) {\n\tvar out apib.Pod\n\terr := cff.Flow(ctx,\n\t\tcff.Params(n),\n\t\tcff.Results(&out),\n\t\tcff.Task(func(i int) (apia.Spec, error) { return apib.Spec{N: i}, nil }),\n\t\tcff.Task(func(s apib.Spec) apia.Pod { return apia.Pod{S: s} }),\n\t)\n\treturn out, err\n}\n",
		map[string]string{"api/a.go": "package api\n\ntype Spec struct{ N int }\n\ntype Pod struct{ S Spec }\n"})
	add("dot-import:type-package", "accept",
		"import (\n\t\"context\"\n\n\t\"go.uber.org/cff\"\n\t. \"scratch/HZ/api\"\n)\n\nfunc Run(ctx context.Context, n int) (Pod, error) {\n\tvar out Pod\n\terr := cff.Flow(ctx,\n\t\tcff.Params(n),\n\t\tcff.Results(&out),\n\t\tcff.Task(func(i int) (Spec, error) { return Spec{N: i}, nil }),\n\t\tcff.Task(func(s Spec) Pod { return Pod{S: s} }),\n\t)\n\treturn out, err\n}\n",
		map[string]string{"api/a.go": "package api\n\ntype Spec struct{ N int }\n\ntype Pod struct{ S Spec }\n"})
	add("dot-import:time", "accept",
		"import (\n\t\"context\"\n\t. \"time\"\n\n\t\"go.uber.org/cff\"\n)\n\nvar _ = Second\n\nfunc Run(ctx context.Context, n int) (string, error) {\n"+flow("cff")+"}\n", nil)
	add("blank-import:type-package-reached-through-function", "accept",
		"import (\n\t\"context\"\n\n\t\"go.uber.org/cff\"\n\t\"scratch/HZ/ha\"\n\t_ \"scratch/HZ/hb\"\n)\n\nfunc Run(ctx context.Context, n int) (string, error) {\n\tvar out string\n\terr := cff.Flow(ctx,\n\t\tcff.Params(n),\n\t\tcff.Results(&out),\n\t\tcff.Task(ha.Make),\n\t\tcff.Task(ha.Show),\n\t)\n\treturn out, err\n}\n",
		map[string]string{"ha/a.go": "package ha\n\nimport \"scratch/HZ/hb\"\n\nfunc Make(i int) hb.X { return hb.X{N: i} }\n\nfunc Show(x hb.X) string { return x.String() }\n",
			"hb/b.go": "package hb\n\nimport \"fmt\"\n\ntype X struct{ N int }\n\nfunc (x X) String() string { return fmt.Sprint(x.N) }\n"})
	add("blank-import:time", "accept",
		"import (\n\t\"context\"\n\t_ \"time\"\n\n\t\"go.uber.org/cff\"\n)\n\nfunc Run(ctx context.Context, n int) (string, error) {\n"+flow("cff")+"}\n", nil)
	add("blank-import:runtime-debug", "accept",
		"import (\n\t\"context\"\n\t_ \"runtime/debug\"\n\n\t\"go.uber.org/cff\"\n)\n\nfunc Run(ctx context.Context, n int) (string, error) {\n"+flow("cff")+"}\n", nil)
	// degenerate directives: whatever cff makes of them, it must not crash and
	// what it writes must compile
	add("empty-flow", "accept",
		"import (\n\t\"context\"\n\n\t\"go.uber.org/cff\"\n)\n\nfunc Run(ctx context.Context, n int) error {\n\t_ = n\n\treturn cff.Flow(ctx)\n}\n", nil)
	add("empty-parallel", "accept",
		"import (\n\t\"context\"\n\n\t\"go.uber.org/cff\"\n)\n\nfunc Run(ctx context.Context, n int) error {\n\t_ = n\n\treturn cff.Parallel(ctx)\n}\n", nil)
	add("parallel-options-only", "accept",
		"import (\n\t\"context\"\n\n\t\"go.uber.org/cff\"\n)\n\nfunc Run(ctx context.Context, n int) error {\n\treturn cff.Parallel(ctx, cff.Concurrency(n), cff.ContinueOnError(n > 2))\n}\n", nil)
	add("tasks-without-functions", "accept",
		"import (\n\t\"context\"\n\n\t\"go.uber.org/cff\"\n)\n\nfunc Run(ctx context.Context, n int) error {\n\t_ = n\n\treturn cff.Parallel(ctx, cff.Tasks())\n}\n", nil)
	add("flow-results-only-from-params", "accept",
		"import (\n\t\"context\"\n\n\t\"go.uber.org/cff\"\n)\n\nfunc Run(ctx context.Context, n int) (int, error) {\n\tvar out int\n\terr := cff.Flow(ctx, cff.Params(n), cff.Results(&out))\n\treturn out, err\n}\n", nil)
	add("directive-result-discarded", "accept",
		"import (\n\t\"context\"\n\n\t\"go.uber.org/cff\"\n)\n\nfunc Run(ctx context.Context, n int) {\n\tcff.Parallel(ctx, cff.Task(func() { _ = n }))\n\t_ = cff.Parallel(ctx, cff.Task(func() error { return nil }))\n\tgo cff.Parallel(ctx, cff.Task(func() {}))\n\tdefer cff.Parallel(ctx, cff.Task(func() {}))\n}\n", nil)
	add("line-directives:same-position-twice", "accept",
		"import (\n\t\"context\"\n\n\t\"go.uber.org/cff\"\n)\n\nfunc Run(ctx context.Context, n int) (string, error) {\n\tvar out string\n\terr := cff.Flow(ctx,\n//line tmpl.go:10\n\t\tcff.Params(n),\n//line tmpl.go:10\n\t\tcff.Results(&out),\n//line tmpl.go:10\n\t\tcff.Task(func(i int) (string, error) { return string(rune('a' + i%26)), nil }),\n//line p.go:30\n\t)\n\treturn out, err\n}\n", nil)
	add("line-directives:decreasing", "accept",
		"import (\n\t\"context\"\n\n\t\"go.uber.org/cff\"\n)\n\nfunc Run(ctx context.Context, n int) (string, error) {\n\tvar out string\n\terr := cff.Flow(ctx,\n//line tmpl.go:300\n\t\tcff.Params(n),\n//line tmpl.go:200\n\t\tcff.Results(&out),\n//line tmpl.go:100\n\t\tcff.Task(func(i int) (string, error) { return string(rune('a' + i%26)), nil }),\n//line p.go:30\n\t)\n\treturn out, err\n}\n", nil)
	add("line-directives:end-of-flow-on-line-1", "accept",
		"import (\n\t\"context\"\n\n\t\"go.uber.org/cff\"\n)\n\nfunc Run(ctx context.Context, n int) (string, error) {\n\tvar out string\n\terr := cff.Flow(ctx,\n\t\tcff.Params(n),\n\t\tcff.Results(&out),\n\t\tcff.Task(func(i int) (string, error) { return string(rune('a' + i%26)), nil }),\n//line tmpl.go:1\n\t)\n\treturn out, err\n}\n", nil)
	add("line-directives:end-of-parallel-on-line-1", "accept",
		"import (\n\t\"context\"\n\n\t\"go.uber.org/cff\"\n)\n\nfunc Run(ctx context.Context, n int) error {\n\treturn cff.Parallel(ctx,\n\t\tcff.Task(func() error { _ = n; return nil }),\n//line tmpl.go:1\n\t)\n}\n", nil)
	// dependency cycles: a positioned diagnostic, not a crash of the tool
	cyc := func(feature, tasks string) {
		add(feature, "diagnostic",
			"import (\n\t\"context\"\n\n\t\"go.uber.org/cff\"\n)\n\ntype A struct{ N int }\ntype B struct{ N int }\n\nfunc Run(ctx context.Context, n int) (string, error) {\n\tvar out string\n\terr := cff.Flow(ctx,\n\t\tcff.Params(n),\n\t\tcff.Results(&out),\n"+tasks+"\t)\n\treturn out, err\n}\n", nil)
	}
	cyc("cycle:two-tasks", "\t\tcff.Task(func(b B) A { return A{b.N} }),\n\t\tcff.Task(func(a A, i int) B { return B{a.N + i} }),\n\t\tcff.Task(func(a A) string { return \"x\" }),\n")
	cyc("cycle:self", "\t\tcff.Task(func(a A, i int) A { return A{a.N + i} }),\n\t\tcff.Task(func(a A) string { return \"x\" }),\n")
	cyc("cycle:predicate-consumes-its-task's-output", "\t\tcff.Task(func(i int) A { return A{i} }, cff.Predicate(func(a A) bool { return a.N > 0 })),\n\t\tcff.Task(func(a A) string { return \"x\" }),\n")
	cyc("cycle:through-predicate-and-second-task", "\t\tcff.Task(func(i int) A { return A{i} }, cff.Predicate(func(b B) bool { return b.N > 0 })),\n\t\tcff.Task(func(a A) B { return B{a.N} }),\n\t\tcff.Task(func(b B) string { return \"x\" }),\n")
	// a file with CRLF line endings and a raw string that spans lines as the last
	// token of an argument
	add("crlf-file-with-multi-line-raw-string-argument", "accept",
		"import (\n\t\"context\"\n\n\t\"go.uber.org/cff\"\n)\n\nfunc Run(ctx context.Context, n int) (int64, error) {\n\tvar out int64\n\terr := cff.Flow(ctx,\n\t\tcff.Params(n, `first\nsecond`),\n\t\tcff.Results(&out),\n\t\tcff.Task(func(i int, s string) (int64, error) { return int64(len(s) + i), nil }),\n\t)\n\treturn out, err\n}\n", nil)
	hs[len(hs)-1].Files["p.go"] = strings.ReplaceAll(hs[len(hs)-1].Files["p.go"], "\n", "\r\n")
	// signatures at the edge of what cff supports: whatever it decides, it must
	// not accept them and then write code that does not compile
	add("predicate-returns-defined-bool", "accept",
		"import (\n\t\"context\"\n\n\t\"go.uber.org/cff\"\n)\n\ntype Enabled bool\n\nfunc Run(ctx context.Context, n int) (string, error) {\n\tvar out string\n\terr := cff.Flow(ctx,\n\t\tcff.Params(n),\n\t\tcff.Results(&out),\n\t\tcff.Task(func(i int) (string, error) { return string(rune('a' + i%26)), nil },\n\t\t\tcff.Predicate(func(i int) Enabled { return i > 0 })),\n\t)\n\treturn out, err\n}\n", nil)
	add("predicate-of-named-func-type", "accept",
		"import (\n\t\"context\"\n\n\t\"go.uber.org/cff\"\n)\n\ntype Gate func(int) bool\n\nfunc Run(ctx context.Context, n int) (string, error) {\n\tvar out string\n\tvar g Gate = func(i int) bool { return i > 0 }\n\terr := cff.Flow(ctx,\n\t\tcff.Params(n),\n\t\tcff.Results(&out),\n\t\tcff.Task(func(i int) (string, error) { return string(rune('a' + i%26)), nil }, cff.Predicate(g)),\n\t)\n\treturn out, err\n}\n", nil)
	add("task-of-named-func-type", "accept",
		"import (\n\t\"context\"\n\n\t\"go.uber.org/cff\"\n)\n\ntype Step func(int) (string, error)\n\nfunc Run(ctx context.Context, n int) (string, error) {\n\tvar out string\n\tvar st Step = func(i int) (string, error) { return string(rune('a' + i%26)), nil }\n\terr := cff.Flow(ctx,\n\t\tcff.Params(n),\n\t\tcff.Results(&out),\n\t\tcff.Task(st),\n\t)\n\treturn out, err\n}\n", nil)
	add("task-returns-defined-error-type", "accept",
		"import (\n\t\"context\"\n\n\t\"go.uber.org/cff\"\n)\n\ntype MyErr interface{ error }\n\nfunc Run(ctx context.Context, n int) (string, error) {\n\tvar out string\n\terr := cff.Flow(ctx,\n\t\tcff.Params(n),\n\t\tcff.Results(&out),\n\t\tcff.Task(func(i int) (string, MyErr) { return string(rune('a' + i%26)), nil }),\n\t)\n\treturn out, err\n}\n", nil)
	add("context-alias-type", "accept",
		"import (\n\t\"context\"\n\n\t\"go.uber.org/cff\"\n)\n\ntype Ctx = context.Context\n\nfunc Run(ctx Ctx, n int) (string, error) {\n\tvar out string\n\terr := cff.Flow(ctx,\n\t\tcff.Params(n),\n\t\tcff.Results(&out),\n\t\tcff.Task(func(c Ctx, i int) (string, error) { return string(rune('a' + i%26)), c.Err() }),\n\t)\n\treturn out, err\n}\n", nil)
	add("context-defined-type", "accept",
		"import (\n\t\"context\"\n\n\t\"go.uber.org/cff\"\n)\n\ntype Ctx interface{ context.Context }\n\nfunc Run(ctx context.Context, n int) (string, error) {\n\tvar out string\n\terr := cff.Flow(ctx,\n\t\tcff.Params(n, Ctx(ctx)),\n\t\tcff.Results(&out),\n\t\tcff.Task(func(c Ctx, i int) (string, error) { return string(rune('a' + i%26)), c.Err() }),\n\t)\n\treturn out, err\n}\n", nil)
	add("slice-func-of-named-func-type", "accept",
		"import (\n\t\"context\"\n\n\t\"go.uber.org/cff\"\n)\n\ntype Each func(int, string) error\n\nfunc Run(ctx context.Context, n int) error {\n\tvar f Each = func(i int, s string) error { _ = n; return nil }\n\treturn cff.Parallel(ctx, cff.Slice(f, []string{\"a\", \"b\"}))\n}\n", nil)
	add("results-target-of-defined-pointer-type", "accept",
		"import (\n\t\"context\"\n\n\t\"go.uber.org/cff\"\n)\n\ntype StrPtr *string\n\nfunc Run(ctx context.Context, n int) (string, error) {\n\tvar out string\n\tvar p StrPtr = &out\n\terr := cff.Flow(ctx,\n\t\tcff.Params(n),\n\t\tcff.Results(p),\n\t\tcff.Task(func(i int) (string, error) { return string(rune('a' + i%26)), nil }),\n\t)\n\treturn out, err\n}\n", nil)
	add("unexported-foreign-type", "accept",
		"import (\n\t\"context\"\n\n\t\"go.uber.org/cff\"\n\t\"scratch/HZ/ext\"\n)\n\nfunc Run(ctx context.Context, n int) (string, error) {\n\tvar out string\n\terr := cff.Flow(ctx,\n\t\tcff.Params(n),\n\t\tcff.Results(&out),\n\t\tcff.Task(ext.MakeX),\n\t\tcff.Task(ext.Show),\n\t)\n\treturn out, err\n}\n",
		map[string]string{"ext/e.go": "package ext\n\nimport \"fmt\"\n\ntype x struct{ n int }\n\nfunc MakeX(i int) x { return x{i} }\n\nfunc Show(v x) string { return fmt.Sprint(v.n) }\n"})
	add("directive-inside-task-literal", "accept",
		"import (\n\t\"context\"\n\n\t\"go.uber.org/cff\"\n)\n\nfunc Run(ctx context.Context, n int) (string, error) {\n\tvar out string\n\terr := cff.Flow(ctx,\n\t\tcff.Params(n),\n\t\tcff.Results(&out),\n\t\tcff.Task(func(i int) (string, error) {\n\t\t\tvar inner string\n\t\t\terr := cff.Flow(ctx,\n\t\t\t\tcff.Params(int64(i)),\n\t\t\t\tcff.Results(&inner),\n\t\t\t\tcff.Task(func(v int64) string { return string(rune('a' + v%26)) }),\n\t\t\t)\n\t\t\treturn inner, err\n\t\t}),\n\t)\n\treturn out, err\n}\n", nil)
	add("invoke-non-constant", "diagnostic",
		"import (\n\t\"context\"\n\n\t\"go.uber.org/cff\"\n)\n\nfunc Run(ctx context.Context, n int) error {\n\tyes := n > 0\n\treturn cff.Flow(ctx,\n\t\tcff.Params(n),\n\t\tcff.Task(func(i int) error { return nil }, cff.Invoke(yes)),\n\t)\n}\n", nil)
	add("task-param-of-type-error", "diagnostic-or-accept",
		"import (\n\t\"context\"\n\t\"errors\"\n\n\t\"go.uber.org/cff\"\n)\n\nfunc Run(ctx context.Context, n int) (string, error) {\n\tvar out string\n\terr := cff.Flow(ctx,\n\t\tcff.Params(errors.New(\"x\")),\n\t\tcff.Results(&out),\n\t\tcff.Task(func(e error) (string, error) { return e.Error(), nil }),\n\t)\n\t_ = n\n\treturn out, err\n}\n", nil)
	add("dot-import", "accept-or-diagnostic",
		"import (\n\t\"context\"\n\n\t. \"go.uber.org/cff\"\n)\n\nfunc Run(ctx context.Context, n int) (string, error) {\n\tvar out string\n\terr := Flow(ctx,\n\t\tParams(n),\n\t\tResults(&out),\n\t\tTask(func(i int) (string, error) { return string(rune('a' + i%26)), nil }),\n\t)\n\treturn out, err\n}\n", nil)
	add("variadic-task", "diagnostic",
		"import (\n\t\"context\"\n\n\t\"go.uber.org/cff\"\n)\n\nfunc Run(ctx context.Context, n int) (string, error) {\n\tvar out string\n\terr := cff.Flow(ctx,\n\t\tcff.Params(n),\n\t\tcff.Results(&out),\n\t\tcff.Task(func(i ...int) (string, error) { return \"\", nil }),\n\t)\n\treturn out, err\n}\n", nil)
	add("ctx-not-first", "diagnostic",
		"import (\n\t\"context\"\n\n\t\"go.uber.org/cff\"\n)\n\nfunc Run(ctx context.Context, n int) (string, error) {\n\tvar out string\n\terr := cff.Flow(ctx,\n\t\tcff.Params(n),\n\t\tcff.Results(&out),\n\t\tcff.Task(func(i int, c context.Context) (string, error) { return \"\", nil }),\n\t)\n\treturn out, err\n}\n", nil)
	add("non-function-task", "diagnostic",
		"import (\n\t\"context\"\n\n\t\"go.uber.org/cff\"\n)\n\nfunc Run(ctx context.Context, n int) (string, error) {\n\tvar out string\n\terr := cff.Flow(ctx,\n\t\tcff.Params(n),\n\t\tcff.Results(&out),\n\t\tcff.Task(n),\n\t)\n\treturn out, err\n}\n", nil)
	add("instrument-without-emitter", "diagnostic",
		"import (\n\t\"context\"\n\n\t\"go.uber.org/cff\"\n)\n\nfunc Run(ctx context.Context, n int) (string, error) {\n\tvar out string\n\terr := cff.Flow(ctx,\n\t\tcff.Params(n),\n\t\tcff.Results(&out),\n\t\tcff.InstrumentFlow(\"x\"),\n\t\tcff.Task(func(i int) (string, error) { return \"\", nil }),\n\t)\n\treturn out, err\n}\n", nil)
	add("parenthesised-options", "accept",
		"import (\n\t\"context\"\n\n\t\"go.uber.org/cff\"\n)\n\nfunc Run(ctx context.Context, n int) (string, error) {\n\tvar out string\n\terr := cff.Flow((ctx),\n\t\t(cff.Params((n))),\n\t\t(cff.Results((&out))),\n\t\t(cff.Task((func(i int) (string, error) { return string(rune('a' + i%26)), nil }))),\n\t)\n\treturn out, err\n}\n", nil)
	add("non-constant-option-args", "accept",
		"import (\n\t\"context\"\n\t\"runtime\"\n\n\t\"go.uber.org/cff\"\n)\n\nfunc conc() int { return runtime.NumCPU() }\n\nfunc Run(ctx context.Context, n int) error {\n\tkeep := n > 3\n\treturn cff.Parallel(ctx,\n\t\tcff.Concurrency(conc()+n%2),\n\t\tcff.ContinueOnError(keep && n < 100),\n\t\tcff.Task(func() error { return nil }),\n\t)\n}\n", nil)
	add("nested-closure", "accept",
		"import (\n\t\"context\"\n\n\t\"go.uber.org/cff\"\n)\n\nfunc Run(ctx context.Context, n int) (string, error) {\n\tf := func(k int) (string, error) {\n\t\tg := func() (string, error) {\n\t\t\tvar out string\n\t\t\terr := cff.Flow(ctx,\n\t\t\t\tcff.Params(k+n),\n\t\t\t\tcff.Results(&out),\n\t\t\t\tcff.Task(func(i int) (string, error) { return string(rune('a' + i%26)), nil }),\n\t\t\t)\n\t\t\treturn out, err\n\t\t}\n\t\treturn g()\n\t}\n\treturn f(1)\n}\n", nil)
	add("package-level-var-directive", "accept",
		"import (\n\t\"context\"\n\n\t\"go.uber.org/cff\"\n)\n\nvar out string\n\nvar initErr = cff.Flow(context.Background(),\n\tcff.Params(7),\n\tcff.Results(&out),\n\tcff.Task(func(i int) (string, error) { return string(rune('a' + i%26)), nil }),\n)\n\nfunc Run(ctx context.Context, n int) (string, error) { return out, initErr }\n", nil)
	add("package-level-func-literal-directive", "accept",
		"import (\n\t\"context\"\n\n\t\"go.uber.org/cff\"\n)\n\nvar Render = func(ctx context.Context, n int) (string, error) {\n\tvar out string\n\terr := cff.Flow(ctx,\n\t\tcff.Params(n),\n\t\tcff.Results(&out),\n\t\tcff.Task(func(i int) (string, error) { return string(rune('a' + i%26)), nil }),\n\t)\n\treturn out, err\n}\n\nfunc Run(ctx context.Context, n int) (string, error) { return Render(ctx, n) }\n", nil)
	// files without the cff constraint: a positioned diagnostic, whatever else is
	// wrong with their directives
	untagged := func(feature, body string) {
		add(feature, "diagnostic", body, nil)
		h := &hs[len(hs)-1]
		h.Files["p.go"] = strings.TrimPrefix(h.Files["p.go"], "//go:build cff\n\n")
	}
	untagged("untagged-file:well-formed-flow",
		"import (\n\t\"context\"\n\n\t\"go.uber.org/cff\"\n)\n\nfunc Run(ctx context.Context, n int) (string, error) {\n"+flow("cff")+"}\n")
	untagged("untagged-file:flow-with-unprovided-input",
		"import (\n\t\"context\"\n\n\t\"go.uber.org/cff\"\n)\n\nfunc Run(ctx context.Context, n int) (string, error) {\n\tvar out string\n\terr := cff.Flow(ctx,\n\t\tcff.Results(&out),\n\t\tcff.Task(func(i int) (string, error) { return string(rune('a' + i%26)), nil }),\n\t)\n\t_ = n\n\treturn out, err\n}\n")
	untagged("untagged-file:parallel-with-bad-task",
		"import (\n\t\"context\"\n\n\t\"go.uber.org/cff\"\n)\n\nfunc Run(ctx context.Context, n int) error {\n\treturn cff.Parallel(ctx,\n\t\tcff.Task(func(i int) error { _ = n; return nil }),\n\t)\n}\n")
	untagged("untagged-file:ill-formed-then-well-formed",
		"import (\n\t\"context\"\n\n\t\"go.uber.org/cff\"\n)\n\nfunc Run0(ctx context.Context, n int) (string, error) {\n\tvar out string\n\terr := cff.Flow(ctx,\n\t\tcff.Results(&out),\n\t\tcff.Task(func(i int) (string, error) { return string(rune('a' + i%26)), nil }),\n\t)\n\t_ = n\n\treturn out, err\n}\n\nfunc Run(ctx context.Context, n int) (string, error) {\n"+flow("cff")+"}\n")
	// a package-level name declared only in an in-package test file: the import
	// the generated code adds for runtime/debug or time must not take that name
	for _, id := range []string{"debug", "time"} {
		add("in-package-test-file-declares:"+id, "accept",
			"import (\n\t\"context\"\n\n\t\"go.uber.org/cff\"\n)\n\nfunc Run(ctx context.Context, n int) (string, error) {\n"+flow("cff")+"}\n",
			map[string]string{"zz_test.go": "package PKGNAME\n\nvar " + id + " = 1\n\nvar _ = " + id + "\n"})
	}
	add("generic-method-receiver", "accept",
		"import (\n\t\"context\"\n\n\t\"go.uber.org/cff\"\n)\n\ntype Box[T any] struct{ v T }\n\nfunc (b *Box[T]) Run(ctx context.Context, n int) (T, error) {\n\tvar out T\n\terr := cff.Flow(ctx,\n\t\tcff.Params(n),\n\t\tcff.Results(&out),\n\t\tcff.Task(func(i int) (T, error) { return b.v, nil }),\n\t)\n\treturn out, err\n}\n\nfunc Run(ctx context.Context, n int) (string, error) { return (&Box[string]{\"s\"}).Run(ctx, n) }\n", nil)
	add("slice-noindex-with-end", "accept",
		"import (\n\t\"context\"\n\n\t\"go.uber.org/cff\"\n)\n\nfunc Run(ctx context.Context, n int) error {\n\tdone := false\n\tdefer func() { _ = done }()\n\treturn cff.Parallel(ctx,\n\t\tcff.Slice(func(s string) error { return nil }, []string{\"a\", \"b\"}, cff.SliceEnd(func() { done = true })),\n\t)\n}\n", nil)
	add("named-map-type", "accept",
		"import (\n\t\"context\"\n\n\t\"go.uber.org/cff\"\n)\n\ntype M map[string]int\n\nfunc Run(ctx context.Context, n int) error {\n\treturn cff.Parallel(ctx,\n\t\tcff.Map(func(k string, v int) error { return nil }, M{\"a\": n}),\n\t)\n}\n", nil)
	return hs
}
