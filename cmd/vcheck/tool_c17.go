package main

import (
	"fmt"
	"go/ast"
	"go/parser"
	"go/token"
	"os"
	"path/filepath"
	"reflect"
	"regexp"
	"strings"
	"sync"

	"verif/vc"
	"vg/prog"
)

// toolCorpus writes a module of packages that cff accepts: Engine G programs
// (p.go), and static multi-file packages. Returns package dirs and their files.
func toolCorpus(c *ctx, dir string, stream string, nf, np, ns int, o prog.GenOpts) []*toolPkg {
	var pkgs []*toolPkg
	for _, p := range genPrograms(c.Seed, stream, nf, np, o, 1) {
		p.AutoInstrument = false
		// F2 and named maps are separate findings; keep this corpus acceptable
		rel := "g/" + p.Name
		writeProgFiles(dir, rel, p)
		pkgs = append(pkgs, &toolPkg{Rel: rel, Kind: "corpus", Feature: strings.Join(p.Features, ","), Files: []string{"p.go"}})
	}
	for i := 0; i < ns; i++ {
		r := prog.NewRand(c.Seed, hashS(stream+"static"), uint64(i))
		name := fmt.Sprintf("s%04d", i)
		rel := "s/" + name
		nfiles := 2 + r.Intn(3)
		tp := &toolPkg{Rel: rel, Kind: "static"}
		for k := 0; k < nfiles; k++ {
			fn := fmt.Sprintf("f%d.go", k)
			if i%3 == 2 && k == nfiles-1 {
				// directives in an in-package test file, in a package whose test
				// variant alone declares the name debug (below)
				fn = fmt.Sprintf("f%d_test.go", k)
			}
			sf := genStaticFile(r, name, fn, k, "")
			writeFile(filepath.Join(dir, rel, fn), sf.Src)
			tp.Files = append(tp.Files, fn)
		}
		if i%3 != 0 {
			// an in-package test file (no directive in it) that declares, at package
			// level, a name the generated code would otherwise import a package
			// under: only the package's test variant sees it
			writeFile(filepath.Join(dir, rel, "zz_test.go"), "package "+name+"\n\nvar debug = 0\n\nvar _ = debug\n")
			tp.Feature = "test-file-declares-debug"
		}
		pkgs = append(pkgs, tp)
	}
	// Every input must type-check under the cff tag: a package that does not is
	// a defect of this generator and would silently shrink the workload.
	if out, err := vc.Run(dir, vc.Env(), "go", "vet", "-framepointer", "-tags", "cff", "./..."); err != nil {
		bad := map[string]bool{}
		for _, m := range regexp.MustCompile(`(?m)^# scratch/(\S+)`).FindAllStringSubmatch(out, -1) {
			bad[m[1]] = true
		}
		c.R.Inconclusive(fmt.Sprintf("%d generated input packages of the %s corpus do not type-check under the cff tag (input generator defect): %s", len(bad), stream, firstLines(out, 4)))
	}
	return pkgs
}

func readOutputs(dir string, pkgs []*toolPkg) map[string]string {
	m := map[string]string{}
	for _, p := range pkgs {
		for _, fn := range p.Files {
			rel := filepath.Join(p.Rel, genName(fn))
			if b, err := os.ReadFile(filepath.Join(dir, rel)); err == nil {
				m[rel] = string(b)
			}
		}
	}
	return m
}

func removeOutputs(dir string, pkgs []*toolPkg) {
	for _, p := range pkgs {
		for _, fn := range p.Files {
			os.Remove(filepath.Join(dir, p.Rel, genName(fn)))
		}
	}
}

func firstDiff(a, b string) string {
	la, lb := strings.Split(a, "\n"), strings.Split(b, "\n")
	for i := 0; i < len(la) && i < len(lb); i++ {
		if la[i] != lb[i] {
			return fmt.Sprintf("line %d: %q vs %q", i+1, la[i], lb[i])
		}
	}
	return fmt.Sprintf("lengths differ: %d vs %d lines", len(la), len(lb))
}

// C17: byte-identical output across fresh processes, and independent of what
// else is processed.
func checkC17(c *ctx) {
	work := vc.WorkDir("c17")
	cff := vc.BuildCff(work)
	o := prog.DefaultOpts()
	o.InstrPct, o.PredPct, o.FallbackPct = 40, 30, 30
	evals := 0
	distinct := map[string]bool{}
	var samples []interface{}
	compared := 0
	evalsSel := 0
	for _, mode := range []string{"base", "source-map"} {
		dir := newScratch(work, "m-"+mode)
		pkgs := toolCorpus(c, dir, "C17", c.pick(30, 300), c.pick(30, 300), c.pick(25, 250), o)
		// map-order hazards: several synthesised imports with colliding base names
		for hi, h := range hazards() {
			if !strings.Contains(h.Feature, "import") && !strings.Contains(h.Feature, "unimported") && !strings.Contains(h.Feature, "generic") && !strings.Contains(h.Feature, "nested-closure") {
				continue
			}
			name := fmt.Sprintf("h%03d", hi)
			rel := "h/" + name
			for fn, content := range h.Files {
				content = strings.ReplaceAll(content, "scratch/HZ/", "scratch/"+rel+"/")
				content = strings.ReplaceAll(content, "PKGNAME", name)
				writeFile(filepath.Join(dir, rel, fn), content)
			}
			pkgs = append(pkgs, &toolPkg{Rel: rel, Kind: "hazard", Feature: h.Feature, Files: []string{"p.go"}})
		}
		runs := c.pick(4, 20)
		var ref map[string]string
		for r := 0; r < runs; r++ {
			// run 1 finds the outputs of run 0 in place; the last run finds a
			// longer, different file at every output path; the others start
			// from a tree without outputs
			switch {
			case r == 1:
			case r == runs-1 && r >= 2:
				for rel := range ref {
					if f, err := os.OpenFile(filepath.Join(dir, rel), os.O_APPEND|os.O_WRONLY, 0); err == nil {
						f.WriteString("\n// tail of an earlier, longer output\nfunc staleTail() { staleTail() }\n" + strings.Repeat("// padding padding padding padding\n", 40))
						f.Close()
					}
				}
			default:
				removeOutputs(dir, pkgs)
			}
			for _, sub := range []string{"g", "s", "h"} {
				runTool(dir, cff, "-genmode", mode, "-quiet", "./"+sub+"/...")
			}
			out := readOutputs(dir, pkgs)
			if r == 0 {
				ref = out
				for rel, txt := range out {
					if strings.Contains(txt, "CFF_MAGIC_TOKEN") {
						c.R.Add(vc.Violation{Property: "C17", Case: mode + "/" + rel, Why: "the output contains a CFF_MAGIC_TOKEN (a per-process random number)", Witness: map[string]interface{}{"output": txt}})
					}
				}
				continue
			}
			for rel, txt := range ref {
				evals++
				compared++
				distinct[mode+"/"+rel] = true
				if out[rel] != txt {
					c.R.Add(vc.Violation{Property: "C17", Case: mode + "/" + rel, Why: fmt.Sprintf("two cff processes produced different output for the same input (run 0 vs run %d): %s", r, firstDiff(txt, out[rel])),
						Witness: map[string]interface{}{"engine": "T", "mode": mode, "file": rel, "run0": txt, "runN": out[rel]}})
				}
			}
		}
		if len(ref) == 0 {
			c.R.Inconclusive("cff produced no output for the " + mode + " corpus")
			continue
		}
		// one invocation over many packages (./g/..., above) vs the package alone
		var alone []*toolPkg
		for i, p := range pkgs {
			if p.Kind != "hazard" && i%c.pick(4, 2) == 0 {
				alone = append(alone, p)
			}
		}
		var aloneMu sync.Mutex
		parallel(len(alone), func(pi int) {
			p := alone[pi]
			if c.R.NumViolations() >= 8 {
				return
			}
			removeOutputs(dir, []*toolPkg{p})
			tr := runTool(dir, cff, "-genmode", mode, "-quiet", "./"+p.Rel)
			out := readOutputs(dir, []*toolPkg{p})
			aloneMu.Lock()
			defer aloneMu.Unlock()
			for _, fn := range p.Files {
				rel := filepath.Join(p.Rel, genName(fn))
				want, had := ref[rel]
				got, has := out[rel]
				evalsSel++
				if had != has || want != got {
					why := firstDiff(want, got)
					if had != has {
						why = fmt.Sprintf("output written together with the other packages: %v, alone: %v", had, has)
					}
					c.R.Add(vc.Violation{Property: "C17", Case: mode + "/" + rel, Why: fmt.Sprintf("processing the package in one invocation with other packages (./%s/...) gives different output for %s than processing the package alone: %s (exit %d)", strings.SplitN(p.Rel, "/", 2)[0], fn, why, tr.Exit),
						Witness: map[string]interface{}{"engine": "T", "mode": mode, "together": want, "alone": got, "stderr": tr.Stderr}})
				}
			}
		})
		// selection independence: -file singleton / subset vs whole package (static multi-file packages)
		var evMu sync.Mutex
		parallel(len(pkgs), func(pi int) {
			p := pkgs[pi]
			if p.Kind != "static" || c.R.NumViolations() >= 8 {
				return
			}
			evals := 0
			defer func() { evMu.Lock(); evalsSel += evals; evMu.Unlock() }()
			r := prog.NewRand(c.Seed, hashS(p.Rel))
			removeOutputs(dir, []*toolPkg{p})
			sel := p.Files[r.Intn(len(p.Files))]
			args := []string{"-genmode", mode, "-quiet", "-file", sel}
			var second string
			if r.Chance(1, 2) && len(p.Files) > 1 {
				second = p.Files[(indexOfStr(p.Files, sel)+1)%len(p.Files)]
				args = append(args, "-file", second)
			}
			args = append(args, "./"+p.Rel)
			tr := runTool(dir, cff, args...)
			out := readOutputs(dir, []*toolPkg{p})
			for _, fn := range p.Files {
				rel := filepath.Join(p.Rel, genName(fn))
				want, had := ref[rel]
				got, has := out[rel]
				selected := fn == sel || fn == second
				evals++
				switch {
				case selected && had && (!has || got != want):
					c.R.Add(vc.Violation{Property: "C17", Case: mode + "/" + rel, Why: fmt.Sprintf("processing %s alone (-file) gives different output than processing the whole package: %s (exit %d)", fn, firstDiff(want, got), tr.Exit),
						Witness: map[string]interface{}{"engine": "T", "mode": mode, "args": args, "whole": want, "alone": got, "stderr": tr.Stderr}})
				case !selected && has:
					// C16's business (footprint), noted there
				}
			}
			// restore the full outputs for later comparisons
			runTool(dir, cff, "-genmode", mode, "-quiet", "./"+p.Rel)
		})
		// package variants: adding an in-package test file and an external test package
		var corpusPkgs []*toolPkg
		for _, p := range pkgs {
			if p.Kind == "corpus" && len(corpusPkgs) < c.pick(16, 120) {
				corpusPkgs = append(corpusPkgs, p)
			}
		}
		parallel(len(corpusPkgs), func(pi int) {
			p := corpusPkgs[pi]
			if c.R.NumViolations() >= 8 {
				return
			}
			evals := 0
			defer func() { evMu.Lock(); evalsSel += evals; evMu.Unlock() }()
			name := filepath.Base(p.Rel)
			writeFile(filepath.Join(dir, p.Rel, "extra_test.go"), "package "+name+"\n\nimport \"testing\"\n\nfunc TestExtra(t *testing.T) { _ = desc }\n")
			writeFile(filepath.Join(dir, p.Rel, "ext_test.go"), "package "+name+"_test\n\nimport (\n\t\"testing\"\n\n\t\"scratch/"+p.Rel+"\"\n)\n\nfunc TestExt(t *testing.T) { _ = "+name+".Run }\n")
			removeOutputs(dir, []*toolPkg{p})
			tr := runTool(dir, cff, "-genmode", mode, "-quiet", "./"+p.Rel)
			out := readOutputs(dir, []*toolPkg{p})
			rel := filepath.Join(p.Rel, "p_gen.go")
			evals++
			if want, ok := ref[rel]; ok && out[rel] != want {
				c.R.Add(vc.Violation{Property: "C17", Case: mode + "/" + rel, Why: fmt.Sprintf("adding test files to the package changes the output for p.go: %s (exit %d)", firstDiff(want, out[rel]), tr.Exit),
					Witness: map[string]interface{}{"engine": "T", "mode": mode, "before": want, "after": out[rel], "stderr": tr.Stderr}})
			}
		})
		evals += evalsSel
		evalsSel = 0
		if len(samples) < 2 {
			for rel := range ref {
				samples = append(samples, map[string]interface{}{"mode": mode, "file": rel, "runs_compared": runs, "bytes": len(ref[rel])})
				break
			}
		}
	}
	cov := map[string]interface{}{
		"evaluations":         evals,
		"distinct_nontrivial": len(distinct),
		"rule": "Engine T: corpus of accepted packages (Engine G programs, static multi-file packages with several directives per file, import-collision hazards); cff run R times in fresh processes per mode (base, source-map) and every output compared byte for byte with the first run; " +
			"run 1 over a tree that holds run 0's outputs, the last run over a tree with a longer stale file at every output path; then a sample of packages re-run alone (the first runs process many packages per invocation) and compared; then each static package re-run with -file selections and each output compared with the whole-package output; then test files (in-package and external) added to corpus packages and p_gen.go compared again; no CFF_MAGIC_TOKEN may remain. distinct = distinct output files compared; all non-trivial (each holds at least one expanded directive)",
		"samples":          samples,
		"byte_comparisons": compared,
	}
	writeEvidence(c, cov, []string{"order of files inside a package is fixed by go list; only -file order and package variants vary it"})
}

func indexOfStr(xs []string, x string) int {
	for i, y := range xs {
		if y == x {
			return i
		}
	}
	return 0
}

// ---------------------------------------------------------------------------
// structural AST comparison (comments and positions ignored)

func astEqual(a, b interface{}, path string) (bool, string) {
	va, vb := reflect.ValueOf(a), reflect.ValueOf(b)
	return valEqual(va, vb, path)
}

var (
	posType   = reflect.TypeOf(token.NoPos)
	cgType    = reflect.TypeOf((*ast.CommentGroup)(nil))
	objType   = reflect.TypeOf((*ast.Object)(nil))
	scopeType = reflect.TypeOf((*ast.Scope)(nil))
)

func valEqual(a, b reflect.Value, path string) (bool, string) {
	if a.IsValid() != b.IsValid() {
		return false, path + ": one side missing"
	}
	if !a.IsValid() {
		return true, ""
	}
	if a.Type() != b.Type() {
		return false, fmt.Sprintf("%s: %s vs %s", path, a.Type(), b.Type())
	}
	switch a.Type() {
	case posType, cgType, objType, scopeType:
		return true, ""
	}
	switch a.Kind() {
	case reflect.Interface, reflect.Ptr:
		if a.IsNil() || b.IsNil() {
			if a.IsNil() != b.IsNil() {
				return false, path + ": nil vs non-nil"
			}
			return true, ""
		}
		return valEqual(a.Elem(), b.Elem(), path)
	case reflect.Struct:
		for i := 0; i < a.NumField(); i++ {
			f := a.Type().Field(i)
			if f.Name == "Comments" || f.Name == "Doc" || f.Name == "Comment" || f.Name == "Unresolved" || f.Name == "Imports" || f.Name == "FileStart" || f.Name == "FileEnd" || f.Name == "GoVersion" {
				continue
			}
			if ok, why := valEqual(a.Field(i), b.Field(i), path+"."+f.Name); !ok {
				return false, why
			}
		}
		return true, ""
	case reflect.Slice:
		if a.Len() != b.Len() {
			return false, fmt.Sprintf("%s: %d vs %d elements", path, a.Len(), b.Len())
		}
		for i := 0; i < a.Len(); i++ {
			if ok, why := valEqual(a.Index(i), b.Index(i), fmt.Sprintf("%s[%d]", path, i)); !ok {
				return false, why
			}
		}
		return true, ""
	case reflect.String:
		if a.String() != b.String() {
			return false, fmt.Sprintf("%s: %q vs %q", path, a.String(), b.String())
		}
		return true, ""
	case reflect.Int, reflect.Int64, reflect.Int32, reflect.Int8, reflect.Int16:
		if a.Int() != b.Int() {
			return false, fmt.Sprintf("%s: %d vs %d", path, a.Int(), b.Int())
		}
		return true, ""
	case reflect.Bool:
		if a.Bool() != b.Bool() {
			return false, path + ": bool differs"
		}
		return true, ""
	case reflect.Map:
		return true, "" // only ast.Scope/Package use maps; not reached
	}
	return true, ""
}

func parseNoComments(path string) (*ast.File, error) {
	fset := token.NewFileSet()
	return parser.ParseFile(fset, path, nil, parser.SkipObjectResolution)
}

func init() {
	checks["C17"] = checkC17
}
