package main

import (
	"fmt"
	"os"
	"path/filepath"
	"regexp"
	"strings"

	"verif/vc"
)

var lineNoRe = regexp.MustCompile(`:\d+( \+0x[0-9a-f]+)?$`)

// collectRaces parses the race detector's log files under work
// (GORACE=log_path=<work>/race), deduplicates the reports by the pair of
// outermost entry points and then by the line-stripped stack pair, and adds one
// violation per distinct report. It returns the number of raw reports.
func collectRaces(c *ctx, work, engine string) int {
	files, _ := filepath.Glob(filepath.Join(work, "race.*"))
	raw := 0
	seen := map[string]bool{}
	for _, f := range files {
		b, err := os.ReadFile(f)
		if err != nil {
			continue
		}
		blocks := strings.Split(string(b), "==================")
		for _, blk := range blocks {
			if !strings.Contains(blk, "WARNING: DATA RACE") {
				continue
			}
			raw++
			key, entry := raceKey(blk)
			if seen[key] {
				continue
			}
			seen[key] = true
			c.R.Add(vc.Violation{Property: c.Prop, Case: "race:" + entry,
				Why:     "the Go race detector reported a data race: " + entry,
				Obs:     map[string]string{"entry": entry},
				Witness: map[string]interface{}{"engine": engine, "report": strings.TrimSpace(blk), "seed": c.Seed}})
		}
	}
	return raw
}

// raceKey reduces a report to (outermost frames of the two accesses, the two
// stacks without line numbers).
func raceKey(blk string) (key, entry string) {
	var stacks [][]string
	var cur []string
	inAccess := false
	for _, l := range strings.Split(blk, "\n") {
		t := strings.TrimSpace(l)
		switch {
		case strings.HasPrefix(t, "Write at"), strings.HasPrefix(t, "Read at"), strings.HasPrefix(t, "Previous write at"), strings.HasPrefix(t, "Previous read at"):
			if cur != nil {
				stacks = append(stacks, cur)
			}
			cur = []string{}
			inAccess = true
		case strings.HasPrefix(t, "Goroutine "):
			if cur != nil {
				stacks = append(stacks, cur)
				cur = nil
			}
			inAccess = false
		case inAccess && t != "" && !strings.HasPrefix(l, "      ") && strings.HasPrefix(l, "  "):
			// function line
			fn := t
			if i := strings.LastIndex(fn, "("); i > 0 {
				fn = fn[:i]
			}
			cur = append(cur, fn)
		}
	}
	if cur != nil {
		stacks = append(stacks, cur)
	}
	var inner, outer []string
	for _, s := range stacks {
		if len(s) == 0 {
			continue
		}
		inner = append(inner, s[0])
		outer = append(outer, s[len(s)-1])
	}
	entry = fmt.Sprintf("%s <-> %s", strings.Join(inner, " / "), strings.Join(outer, " / "))
	var flat []string
	for _, s := range stacks {
		flat = append(flat, strings.Join(s, ";"))
	}
	return strings.Join(flat, "||"), entry
}
