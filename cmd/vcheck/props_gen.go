package main

import (
	"fmt"
	"time"

	"verif/vc"
	"vg/prog"
)

const ruleG = "Engine G: abstract programs (random typed flow DAGs / Parallel mixes; spellings: literals, top-level functions, method values, local function variables, instantiated generics; " +
	"value types: named ints, structs, pointers, slices, maps, generic instantiations, named slices, unnamed basic types; optional predicates, fallbacks, Invoke, instrumentation; random option and listing orders; " +
	"optionally inside a generic function or a method) are printed as cff-tagged packages, compiled by the cff binary built from /repo's working tree, linked into one runner and executed under generated scenarios " +
	"(outcomes per function, delays, seeded perturbation profiles at the scheduler's verif hook points, 'nest' scenarios in which a function runs another program's directive - succeeding, failing or panicking on its own - inside its body, concurrency in {default,1,2,3,4,8,64}, collection sizes nil/0/1/2/3/7/16/64/1000; where failures matter also the systematic matrix: one Parallel per signature variant of Task/Tasks/Slice/Map functions and End hooks (68 programs), with 'one' scenarios in which exactly one function - each in turn, by error and by panic, first/last/middle element - fails). Every stub call is logged with its argument tokens (provenance hashes) and stamps from one atomic clock; " +
	"a reference interpreter written from the property statements decides. distinct = distinct (program, scenario shape); non-trivial for this property: "

var assumeG = []string{
	"programs outside the generator's grammar are not reached",
	"stubs are pure functions of their inputs and of the scenario",
	"interleavings are sampled (OS scheduler, delays in stubs, concurrency values), not enumerated",
}

// genPrograms builds the corpus deterministically from the seed.
func genPrograms(seed uint64, stream string, nFlows, nPars int, o prog.GenOpts, orders int) []*prog.Program {
	var out []*prog.Program
	for i := 0; i < nFlows; i++ {
		for k := 0; k < orders; k++ {
			// same program (same rand stream), different listing / option order
			r := prog.NewRand(seed, hashS(stream), uint64(i))
			p := prog.GenFlow(r, fmt.Sprintf("f%04d%c", i, 'a'+k), o)
			if k > 0 {
				r2 := prog.NewRand(seed, hashS(stream), uint64(i), uint64(k))
				p.Flow.Listing = r2.Perm(len(p.Flow.Tasks))
				p.Flow.OptOrder = r2.Perm(len(p.Flow.OptOrder))
				for ti := range p.Flow.Tasks {
					p.Flow.Tasks[ti].OptOrder = r2.Perm(4)
				}
			}
			out = append(out, p)
		}
	}
	for i := 0; i < nPars; i++ {
		r := prog.NewRand(seed, hashS(stream+"/par"), uint64(i))
		out = append(out, prog.GenPar(r, fmt.Sprintf("q%04d", i), o))
	}
	// two directives per file: a program becomes the guest of its predecessor
	if o.PairPct > 0 {
		pr := prog.NewRand(seed, hashS(stream+"/pairs"))
		for i := 0; i+1 < len(out); i++ {
			a, b := out[i], out[i+1]
			if a.Guest != nil || a.Host != "" || b.Host != "" || a.HasFeature("spell4") || b.HasFeature("spell4") || b.HasFeature("collection-argument-is-a-foreign-package-level-variable") || b.HasFeature("kind20") || b.HasFeature("kind21") || b.HasFeature("kind22") || a.AutoInstrument != b.AutoInstrument {
				continue
			}
			if pr.Intn(100) < o.PairPct {
				a.Guest, b.Host = b, a.Name
				i++
			}
		}
	}
	for i := 0; i < o.Wide; i++ {
		out = append(out, prog.GenWide(i+int(seed%7), fmt.Sprintf("w%04d", i), o))
	}
	if o.ParMatrix {
		for i := 0; i < prog.ParMatrixSize; i++ {
			out = append(out, prog.GenParMatrix(i, fmt.Sprintf("m%04d", i), o))
		}
	}
	return out
}

// prepare builds cff, writes the corpus, generates and links it.
func prepare(c *ctx, progs []*prog.Program, mode string, race bool) *corpus {
	work := vc.WorkDir("gen")
	cff := vc.BuildCff(work)
	co := writeCorpus(work, progs)
	co.generate(cff, mode)
	co.buildRunner(race)
	return co
}

func genEvidence(c *ctx, a *genAgg, rule string, extra map[string]interface{}, merge map[string]interface{}) {
	cov := a.coverage(rule)
	for k, v := range extra {
		cov[k] = v
	}
	for k, v := range merge {
		if _, dup := cov[k]; !dup {
			cov[k] = v
		}
	}
	cov["inconclusive"] = len(c.R.Incon)
	cov["known_findings_hit"] = c.R.KnownHits()
	ev := &vc.Evidence{PropertyID: c.Prop, Tier: c.Tier, Seed: int64(c.Seed), Level: "exploration", Coverage: cov,
		Assumptions: assumeG, WallS: time.Since(c.R.Start).Seconds(), Violations: c.R.NumViolations()}
	if err := ev.Write(); err != nil {
		vc.Fatalf("writing evidence: %v", err)
	}
}
