package main

import (
	"encoding/json"
	"fmt"
	"go/ast"
	"go/importer"
	"go/parser"
	"go/token"
	"go/types"
	"os"
	"path/filepath"
	"strings"

	"verif/vc"
	"vg/prog"
)

func cloneProg(p *prog.Program) *prog.Program {
	b, _ := json.Marshal(p)
	q := &prog.Program{}
	json.Unmarshal(b, q)
	return q
}

// flowReaches: does task index j (transitively) depend on task index i?
func flowDependsOn(f *prog.Flow, j, i int) bool {
	provider := map[int]int{}
	for ti, t := range f.Tasks {
		for _, o := range t.Fn.Outs {
			provider[o] = ti
		}
	}
	seen := map[int]bool{}
	var walk func(k int) bool
	walk = func(k int) bool {
		if k == i {
			return true
		}
		if seen[k] {
			return false
		}
		seen[k] = true
		ins := append([]int{}, f.Tasks[k].Fn.Ins...)
		if f.Tasks[k].Pred != nil {
			ins = append(ins, f.Tasks[k].Pred.Ins...)
		}
		for _, in := range ins {
			if pr, ok := provider[in]; ok && walk(pr) {
				return true
			}
		}
		return false
	}
	return j != i && walk(j)
}

type mutant struct {
	P    *prog.Program
	Kind string
}

// mutateFlow returns every single-defect mutation kind that applies to p.
func mutateFlow(p *prog.Program, r *prog.Rand) []mutant {
	var out []mutant
	f := p.Flow
	nt := len(f.Tasks)
	newType := func(q *prog.Program) int {
		q.Types = append(q.Types, prog.KNamedInt)
		return len(q.Types) - 1
	}
	mk := func(kind string, edit func(q *prog.Program) bool) {
		q := cloneProg(p)
		q.Name = fmt.Sprintf("%s_%s", p.Name, strings.ReplaceAll(kind, "-", ""))
		if edit(q) {
			q.Wrap = false
			out = append(out, mutant{q, kind})
		}
	}
	// consumed type with no provider (as task input, and as predicate input)
	mk("no-provider-task-input", func(q *prog.Program) bool {
		t := &q.Flow.Tasks[r.Intn(nt)]
		t.Fn.Ins = append(t.Fn.Ins, newType(q))
		return true
	})
	mk("no-provider-result", func(q *prog.Program) bool {
		q.Flow.Results = append(q.Flow.Results, newType(q))
		return true
	})
	mk("no-provider-pred-input", func(q *prog.Program) bool {
		for i := range q.Flow.Tasks {
			if q.Flow.Tasks[i].Pred != nil {
				q.Flow.Tasks[i].Pred.Ins = append(q.Flow.Tasks[i].Pred.Ins, newType(q))
				return true
			}
		}
		return false
	})
	// a type provided twice
	mk("dup-provider-two-tasks", func(q *prog.Program) bool {
		var provided []int
		for _, t := range q.Flow.Tasks {
			provided = append(provided, t.Fn.Outs...)
		}
		if len(provided) == 0 || nt < 2 {
			return false
		}
		ty := provided[r.Intn(len(provided))]
		for k := 0; k < 10; k++ {
			t := &q.Flow.Tasks[r.Intn(nt)]
			has := false
			for _, o := range t.Fn.Outs {
				if o == ty {
					has = true
				}
			}
			if !has && !t.Invoke {
				t.Fn.Outs = append(t.Fn.Outs, ty)
				if t.Fallback {
					t.Fallback = false
				}
				return true
			}
		}
		return false
	})
	mk("dup-provider-in-params", func(q *prog.Program) bool {
		if len(q.Flow.Params) == 0 {
			return false
		}
		q.Flow.Params = append(q.Flow.Params, q.Flow.Params[r.Intn(len(q.Flow.Params))])
		q.Flow.SplitParams = false
		return true
	})
	mk("dup-provider-param-and-task", func(q *prog.Program) bool {
		if len(q.Flow.Params) == 0 {
			return false
		}
		ty := q.Flow.Params[r.Intn(len(q.Flow.Params))]
		for k := 0; k < 10; k++ {
			t := &q.Flow.Tasks[r.Intn(nt)]
			if !t.Invoke {
				t.Fn.Outs = append(t.Fn.Outs, ty)
				t.Fallback = false
				return true
			}
		}
		return false
	})
	// dependency cycles: a task consumes something a dependent of it produces
	cyc := func(kind string, viaPred bool, minDist int) {
		mk(kind, func(q *prog.Program) bool {
			for tries := 0; tries < 40; tries++ {
				i, j := r.Intn(nt), r.Intn(nt)
				if !flowDependsOn(q.Flow, j, i) || len(q.Flow.Tasks[j].Fn.Outs) == 0 {
					continue
				}
				if minDist > 1 {
					// require an intermediate task between i and j
					direct := false
					for _, in := range q.Flow.Tasks[j].Fn.Ins {
						for _, o := range q.Flow.Tasks[i].Fn.Outs {
							if in == o {
								direct = true
							}
						}
					}
					if direct {
						continue
					}
				}
				ty := q.Flow.Tasks[j].Fn.Outs[r.Intn(len(q.Flow.Tasks[j].Fn.Outs))]
				ti := &q.Flow.Tasks[i]
				if viaPred {
					if ti.Pred == nil {
						continue
					}
					ti.Pred.Ins = append(ti.Pred.Ins, ty)
				} else {
					ti.Fn.Ins = append(ti.Fn.Ins, ty)
				}
				return true
			}
			return false
		})
	}
	cyc("cycle-direct", false, 1)
	cyc("cycle-long", false, 2)
	cyc("cycle-through-predicate", true, 1)
	mk("cycle-self", func(q *prog.Program) bool {
		for tries := 0; tries < 10; tries++ {
			t := &q.Flow.Tasks[r.Intn(nt)]
			if len(t.Fn.Outs) > 0 {
				t.Fn.Ins = append(t.Fn.Ins, t.Fn.Outs[0])
				return true
			}
		}
		return false
	})
	// dependency cycles that lead to no Results value and no Invoke task: a ring
	// of added tasks on fresh types, next to the well-formed rest of the flow
	// (every output of the ring is consumed - inside the ring -, every input has
	// a provider, nothing is provided twice: the cycle is the only defect)
	addTask := func(q *prog.Program, ins, outs []int, pred []int) {
		q.NumFns++
		t := prog.Task{Fn: prog.Fn{ID: q.NumFns, Role: "task", Ins: ins, Outs: outs, Err: r.Chance(1, 2), Ctx: r.Chance(1, 3)}}
		if pred != nil {
			q.NumFns++
			t.Pred = &prog.Fn{ID: q.NumFns, Role: "pred", Ins: pred}
		}
		q.Flow.Tasks = append(q.Flow.Tasks, t)
		// listed at a random place among the tasks
		at := r.Intn(len(q.Flow.Listing) + 1)
		q.Flow.Listing = append(q.Flow.Listing, 0)
		copy(q.Flow.Listing[at+1:], q.Flow.Listing[at:])
		q.Flow.Listing[at] = len(q.Flow.Tasks) - 1
	}
	island := func(kind string, n int, viaPred, fed bool) {
		mk(kind, func(q *prog.Program) bool {
			ts := make([]int, n)
			for i := range ts {
				ts[i] = newType(q)
			}
			for i := 0; i < n; i++ {
				ins, outs := []int{ts[i]}, []int{ts[(i+1)%n]}
				var pred []int
				if viaPred && i == 0 {
					ins, pred = nil, []int{ts[0]}
				}
				if fed && i == n-1 {
					// the ring also consumes a value of the well-formed part
					var have []int
					have = append(have, q.Flow.Params...)
					for _, t := range q.Flow.Tasks[:nt] {
						have = append(have, t.Fn.Outs...)
					}
					if len(have) == 0 {
						return false
					}
					ins = append(ins, have[r.Intn(len(have))])
				}
				addTask(q, ins, outs, pred)
			}
			return true
		})
	}
	island("cycle-island", 2, false, false)
	island("cycle-island-long", 3, false, false)
	island("cycle-island-through-predicate", 2, true, false)
	island("cycle-island-fed", 2, false, true)
	mk("unused-param", func(q *prog.Program) bool {
		q.Flow.Params = append(q.Flow.Params, newType(q))
		q.Flow.SplitParams = false
		return true
	})
	mk("unused-output", func(q *prog.Program) bool {
		for tries := 0; tries < 10; tries++ {
			t := &q.Flow.Tasks[r.Intn(nt)]
			if !t.Invoke {
				t.Fn.Outs = append(t.Fn.Outs, newType(q))
				t.Fallback = false
				return true
			}
		}
		return false
	})
	mk("strip-invoke", func(q *prog.Program) bool {
		for i := range q.Flow.Tasks {
			if q.Flow.Tasks[i].Invoke {
				q.Flow.Tasks[i].Invoke = false
				return true
			}
		}
		return false
	})
	return out
}

// ---------------------------------------------------------------------------
// Slice / Map assignability lattice.

type latType struct{ Name, Expr, Val string }

var latTypes = []latType{
	{"named", "N1", "N1{}"},
	{"named2", "N2", "N2{}"},
	{"buf", "*bytes.Buffer", "new(bytes.Buffer)"},
	{"reader", "io.Reader", "io.Reader(nil)"},
	{"unnamedslice", "[]int", "[]int{1}"},
	{"namedslice", "IntS", "IntS{1}"},
	{"int", "int", "1"},
	{"myint", "MyInt", "MyInt(1)"},
	{"any", "interface{}", "interface{}(nil)"},
	{"string", "string", `"k"`},
	{"mystr", "MyStr", `MyStr("k")`},
}

const latDecls = `
type N1 struct{ A int }
type N2 struct{ A int }
type IntS []int
type MyInt int
type MyStr string
`

// assignableTable computes, with go/types, whether a value of type e may be
// assigned to a variable of type p, for all pairs of the lattice.
func assignableTable() map[string]bool {
	src := "package lat\n\nimport (\n\t\"bytes\"\n\t\"io\"\n)\n\nvar _ = bytes.NewBuffer\nvar _ io.Reader\n" + latDecls
	for i, t := range latTypes {
		src += fmt.Sprintf("var v%d %s\n", i, t.Expr)
	}
	fset := token.NewFileSet()
	f, err := parser.ParseFile(fset, "lat.go", src, 0)
	if err != nil {
		vc.Fatalf("lattice source: %v", err)
	}
	conf := types.Config{Importer: importer.ForCompiler(fset, "source", nil)}
	pkg, err := conf.Check("lat", fset, []*ast.File{f}, nil)
	if err != nil {
		vc.Fatalf("lattice type-check: %v", err)
	}
	tab := map[string]bool{}
	for i, e := range latTypes {
		for j, p := range latTypes {
			te := pkg.Scope().Lookup(fmt.Sprintf("v%d", i)).Type()
			tp := pkg.Scope().Lookup(fmt.Sprintf("v%d", j)).Type()
			tab[e.Name+">"+p.Name] = types.AssignableTo(te, tp)
		}
	}
	return tab
}

func comparableKey(t latType) bool {
	switch t.Name {
	case "unnamedslice", "namedslice":
		return false
	}
	return true
}

func latticeFile(pkg, kind string, e, p latType, idx int) string {
	// kind: slice-elem, slice-noindex, map-key, map-value
	var b strings.Builder
	fmt.Fprintf(&b, "//go:build cff\n\npackage %s\n\nimport (\n\t\"bytes\"\n\t\"context\"\n\t\"io\"\n\n\t\"go.uber.org/cff\"\n)\n\nvar _ = bytes.NewBuffer\nvar _ io.Reader\n\n", pkg)
	fmt.Fprintf(&b, "func Run%d(ctx context.Context) error {\n", idx)
	switch kind {
	case "slice-elem":
		fmt.Fprintf(&b, "\tcoll := []%s{%s}\n\treturn cff.Parallel(ctx,\n\t\tcff.Slice(func(i int, v %s) error { return nil }, coll),\n\t)\n", e.Expr, e.Val, p.Expr)
	case "slice-noindex":
		fmt.Fprintf(&b, "\tcoll := []%s{%s}\n\treturn cff.Parallel(ctx,\n\t\tcff.Slice(func(v %s) { _ = v }, coll),\n\t)\n", e.Expr, e.Val, p.Expr)
	case "map-value":
		fmt.Fprintf(&b, "\tcoll := map[string]%s{\"k\": %s}\n\treturn cff.Parallel(ctx,\n\t\tcff.Map(func(k string, v %s) error { return nil }, coll),\n\t)\n", e.Expr, e.Val, p.Expr)
	case "map-key":
		fmt.Fprintf(&b, "\tcoll := map[%s]int{%s: 1}\n\treturn cff.Parallel(ctx,\n\t\tcff.Map(func(k %s, v int) error { return nil }, coll),\n\t)\n", e.Expr, e.Val, p.Expr)
	}
	b.WriteString("}\n")
	return b.String()
}

// ---------------------------------------------------------------------------

type c14case struct {
	File   string // input file inside Rel (default p.go)
	Group  bool   // several cases share the package: exit status is per package
	Rel    string
	Kind   string
	Expect string // accept | reject
	Desc   string
	run    toolRun
}

func checkC14(c *ctx) {
	work := vc.WorkDir("c14")
	cff := vc.BuildCff(work)
	dir := newScratch(work, "m")
	o := prog.DefaultOpts()
	// the single-defect mutations rewrite the abstract flow: keep every function and type in the program's own package
	o.TwinPct = 0
	o.ImportPct, o.BarePct, o.LineDirPct = 0, 0, 0 // (with //line comments diagnostics rightly name the file those comments announce)
	o.InstrPct = 0
	o.Spellings = []int{prog.SpLit, prog.SpLit, prog.SpTop, prog.SpMethod}
	var cases []*c14case
	nbase := c.pick(25, 500)
	for i := 0; i < nbase; i++ {
		r := prog.NewRand(c.Seed, hashS("C14"), uint64(i))
		p := prog.GenFlow(r, fmt.Sprintf("w%04d", i), o)
		p.Wrap = false
		rel := "w/" + p.Name
		writeFile(filepath.Join(dir, rel, "p.go"), p.Source())
		cases = append(cases, &c14case{Rel: rel, Kind: "well-formed", Expect: "accept", Desc: fmt.Sprintf("%d tasks, listing %v", len(p.Flow.Tasks), p.Flow.Listing)})
		// the same flow in another option order must be accepted as well
		p2 := cloneProg(p)
		p2.Name = p.Name + "o"
		p2.Flow.Listing = r.Perm(len(p.Flow.Tasks))
		p2.Flow.OptOrder = r.Perm(len(p.Flow.OptOrder))
		writeFile(filepath.Join(dir, "w/"+p2.Name, "p.go"), p2.Source())
		cases = append(cases, &c14case{Rel: "w/" + p2.Name, Kind: "well-formed-reordered", Expect: "accept"})
		for mi, m := range mutateFlow(p, r) {
			rel := "x/" + m.P.Name
			// every fifth case lives in an in-package test file (p_test.go ->
			// p_gen_test.go): the loader reaches those only through the package's
			// test variant
			file := "p.go"
			if (i+mi)%5 == 0 {
				file = "p_test.go"
			}
			writeFile(filepath.Join(dir, rel, file), m.P.Source())
			cases = append(cases, &c14case{Rel: rel, File: file, Kind: m.Kind, Expect: "reject"})
		}
		// two directives in one file: the verdict on the file must not depend on
		// what the other directive of the file is, or on their order
		if ms := mutateFlow(p, prog.NewRand(c.Seed, hashS("C14pair"), uint64(i))); len(ms) > 0 && i%2 == 0 {
			m := ms[i/2%len(ms)]
			mk := func(name string, host, guest *prog.Program) string {
				h, g := cloneProg(host), cloneProg(guest)
				h.Name, g.Name = name, name+"g"
				h.Guest = g
				writeFile(filepath.Join(dir, "y/"+name, "p.go"), h.Files("scratch/y/" + name)["p.go"])
				return "y/" + name
			}
			cases = append(cases, &c14case{Rel: mk(p.Name+"wi", p, m.P), Kind: "two-flows-per-file:well-formed-then-" + m.Kind, Expect: "reject"})
			cases = append(cases, &c14case{Rel: mk(p.Name+"iw", m.P, p), Kind: "two-flows-per-file:" + m.Kind + "-then-well-formed", Expect: "reject"})
			cases = append(cases, &c14case{Rel: mk(p.Name+"ww", p, p2), Kind: "two-flows-per-file:both-well-formed", Expect: "accept"})
			for ci, mc := range ms { // every cyclic variant after a well-formed flow (cycle detection keeps per-flow state)
				if strings.HasPrefix(mc.Kind, "cycle") && mc.Kind != m.Kind {
					cases = append(cases, &c14case{Rel: mk(fmt.Sprintf("%swc%d", p.Name, ci), p, mc.P), Kind: "two-flows-per-file:well-formed-then-" + mc.Kind, Expect: "reject"})
				}
			}
		}
		if i%4 == 0 {
			p3 := cloneProg(p)
			p3.Name = p.Name + "t"
			writeFile(filepath.Join(dir, "w/"+p3.Name, "p_test.go"), p3.Source())
			cases = append(cases, &c14case{Rel: "w/" + p3.Name, File: "p_test.go", Kind: "well-formed-in-test-file", Expect: "accept"})
		}
	}
	tab := assignableTable()
	li := 0
	addLat := func(kind string, e, p latType) {
		name := fmt.Sprintf("l%03d", li/24)
		rel := "l/" + name
		fn := fmt.Sprintf("c%04d.go", li)
		if li%24 == 0 {
			writeFile(filepath.Join(dir, rel, "decls.go"), "package "+name+"\n"+latDecls)
		}
		writeFile(filepath.Join(dir, rel, fn), latticeFile(name, kind, e, p, li))
		li++
		exp := "reject"
		if tab[e.Name+">"+p.Name] {
			exp = "accept"
		}
		cases = append(cases, &c14case{Rel: rel, File: fn, Group: true, Kind: "lattice-" + kind, Expect: exp, Desc: fmt.Sprintf("%s: collection %s of %s, function parameter %s (assignable=%v)", kind, kind, e.Expr, p.Expr, tab[e.Name+">"+p.Name])})
	}
	related := func(a, b latType) bool {
		if a.Name == b.Name || a.Name == "any" || b.Name == "any" {
			return true
		}
		grp := map[string]int{"named": 1, "named2": 1, "buf": 2, "reader": 2, "unnamedslice": 3, "namedslice": 3, "int": 4, "myint": 4, "string": 5, "mystr": 5}
		return grp[a.Name] == grp[b.Name]
	}
	for _, e := range latTypes {
		for _, p := range latTypes {
			if !c.Thor && !related(e, p) {
				continue // the quick tier keeps to related pairs; thorough runs all 121
			}
			addLat("slice-elem", e, p)
			addLat("map-value", e, p)
			addLat("slice-noindex", e, p)
			if comparableKey(e) {
				addLat("map-key", e, p)
			}
		}
	}
	// inputs must type-check under the cff tag
	vetOut, _ := vc.Run(dir, vc.Env(), "go", "vet", "-framepointer", "-tags", "cff", "./...")
	bad := map[string]bool{}
	for _, l := range strings.Split(vetOut, "\n") {
		l = strings.TrimPrefix(strings.TrimPrefix(l, "vet: "), "./")
		for _, pre := range []string{"w/", "x/", "y/"} {
			if strings.HasPrefix(l, pre) {
				if i := strings.Index(l[2:], "/"); i > 0 {
					bad[l[:2+i]] = true
				}
			}
		}
	}
	runs := map[string]*toolRun{}
	var rels []string
	for _, cs := range cases {
		if _, ok := runs[cs.Rel]; !ok && !bad[cs.Rel] {
			runs[cs.Rel] = &toolRun{}
			rels = append(rels, cs.Rel)
		}
	}
	parallel(len(rels), func(i int) {
		*runs[rels[i]] = runTool(dir, cff, "./"+rels[i])
	})
	for _, cs := range cases {
		if r, ok := runs[cs.Rel]; ok {
			cs.run = *r
		}
		if cs.File == "" {
			cs.File = "p.go"
		}
	}
	evals := 0
	byKind := map[string]int{}
	distinct := map[string]bool{}
	discarded := 0
	var samples []interface{}
	for _, cs := range cases {
		if bad[cs.Rel] {
			discarded++
			continue
		}
		evals++
		byKind[cs.Kind]++
		distinct[cs.Kind+"|"+cs.Rel] = true
		_, genErr := os.Stat(filepath.Join(dir, cs.Rel, genName(cs.File)))
		src, _ := os.ReadFile(filepath.Join(dir, cs.Rel, cs.File))
		named := strings.Contains(cs.run.Stderr, "/"+cs.File+":")
		wit := map[string]interface{}{"engine": "T", "seed": c.Seed, "kind": cs.Kind, "expect": cs.Expect, "exit": cs.run.Exit, "stderr": vc.Tail(cs.run.Stderr, 2000), "input": string(src), "desc": cs.Desc}
		obs := map[string]string{"kind": cs.Kind, "expect": cs.Expect, "desc": cs.Desc}
		if crashed(cs.run) {
			c.R.Add(vc.Violation{Property: "C14", Case: cs.Rel + "/" + cs.File + " " + cs.Kind, Why: "cff crashed instead of validating: " + firstLines(crashHead(cs.run.Stderr), 2), Obs: obs, Witness: wit})
			continue
		}
		switch cs.Expect {
		case "accept":
			if (cs.run.Exit != 0 && (!cs.Group || named)) || genErr != nil {
				c.R.Add(vc.Violation{Property: "C14", Case: cs.Rel + "/" + cs.File + " " + cs.Kind, Why: fmt.Sprintf("a well-formed directive was rejected (exit %d): %s %s", cs.run.Exit, cs.Desc, firstLines(cs.run.Stderr, 2)), Obs: obs, Witness: wit})
			}
		case "reject":
			switch {
			case cs.run.Exit == 0 || (cs.Group && !named && genErr == nil):
				c.R.Add(vc.Violation{Property: "C14", Case: cs.Rel + "/" + cs.File + " " + cs.Kind, Why: "an ill-formed directive (" + cs.Kind + ") was accepted: " + cs.Desc, Obs: obs, Witness: wit})
			case genErr == nil:
				c.R.Add(vc.Violation{Property: "C14", Case: cs.Rel + "/" + cs.File + " " + cs.Kind, Why: "cff rejected the ill-formed directive (" + cs.Kind + ") but still wrote an output file for it", Obs: obs, Witness: wit})
			case !named:
				c.R.Add(vc.Violation{Property: "C14", Case: cs.Rel + "/" + cs.File + " " + cs.Kind, Why: "the rejection carries no diagnostic naming the file: " + firstLines(cs.run.Stderr, 2), Obs: obs, Witness: wit})
			}
		}
		if len(samples) < 3 && (cs.Kind == "cycle-long" || cs.Kind == "lattice-map-key" || cs.Kind == "dup-provider-two-tasks") {
			samples = append(samples, map[string]interface{}{"kind": cs.Kind, "expect": cs.Expect, "exit": cs.run.Exit, "stderr_first_line": firstLines(cs.run.Stderr, 1), "desc": cs.Desc})
		}
	}
	cov := map[string]interface{}{
		"evaluations":         evals,
		"distinct_nontrivial": len(distinct),
		"rule": "Engine T: random well-formed flows (accepted, also in a second listing/option order) and every applicable single-defect mutation of each (no provider as task input / Results / predicate input; type provided by two tasks / twice in Params / by Params and a task; " +
			"cycle direct / at distance >= 2 / through a predicate / self; unused param; unused output; Invoke stripped), each its own package (a fifth of them in an in-package _test.go file; for every second base flow also files with two directives: well-formed + ill-formed in both orders, which must be rejected, and two well-formed ones, which must be accepted), one cff process per package; reject = non-zero exit, diagnostic naming the file, no output file. " +
			"Slice/Map: all pairs of an 11-type lattice (identical, concrete<->interface, unnamed<->named, distinct named with equal underlying type) for element, index-less element, map key and map value; expected verdict computed with go/types.AssignableTo. distinct = distinct (kind, package)",
		"samples":                           samples,
		"cases_by_kind":                     byKind,
		"inputs_discarded_not_type_correct": discarded,
	}
	writeEvidence(c, cov, []string{"the reference well-formedness rules are applied to the abstract program by construction (each mutation introduces exactly one named defect)"})
}

func init() {
	checks["C14"] = checkC14
}
