package main

import (
	"encoding/json"
	"fmt"
	"os"
	"os/exec"
	"path/filepath"
	"strconv"

	"verif/vc"
)

// emitPart runs Engine E (cmd/emith): the root package's EmitterStack and
// NopEmitter observed directly at their API.
func emitPart(c *ctx) map[string]interface{} { return emitPartRace(c, false) }

// emitPartRace: with race set, Engine E is built with -race (concurrent
// derivation of stacks from a shared base is part of its workload) and every
// report of the race detector is a violation of the calling check's property.
func emitPartRace(c *ctx, race bool) map[string]interface{} {
	if violationsSoFar(c) || (c.RS != nil && c.RS.Engine != "E") {
		return nil
	}
	work := vc.WorkDir("emit")
	bin := vc.BuildHarness(work, "./cmd/emith", "emith", race, "")
	type res struct {
		Cases         int `json:"cases"`
		Stacks        int `json:"stacks_built"`
		SharedParents int `json:"stacks_with_a_child_shared_with_another_stack"`
		Drives        int `json:"drives"`
		Events        int `json:"events_received"`
		MaxDepth      int `json:"max_nesting_depth"`
		Concurrent    int `json:"cases_with_concurrent_derivation"`
		Reused        int `json:"stacks_built_again_from_the_same_argument_slice"`
		ArgsMutated   int `json:"stacks_whose_argument_slice_was_overwritten_afterwards"`
		Distinct      int `json:"distinct_constructions"`
		Viols         []struct {
			Case int    `json:"case"`
			Why  string `json:"why"`
			Desc string `json:"desc"`
		} `json:"viols"`
	}
	out := filepath.Join(work, "emit.json")
	n := c.pick(4000, 200000)
	if c.RS != nil {
		n = c.RS.ECase + 1
	}
	env := vc.Env()
	if race {
		n /= 2
		env = append(env, "GORACE=halt_on_error=0 log_path="+filepath.Join(work, "race"))
	}
	o, err := vc.Run(work, env, bin, "-seed", strconv.FormatUint(c.Seed, 10), "-cases", strconv.Itoa(n), "-out", out)
	if race {
		defer func() { collectRaces(c, work, "E") }()
		if ee, ok := err.(*exec.ExitError); ok && ee.ExitCode() == 66 {
			err = nil // reports are in the race log; the results file is complete
		}
	}
	var r res
	b, rerr := os.ReadFile(out)
	if err != nil || rerr != nil || json.Unmarshal(b, &r) != nil {
		c.R.Add(vc.Violation{Property: c.Prop, Case: "emitter-stack", Why: "the emitter harness died: " + firstLines(o, 6), Witness: map[string]interface{}{"engine": "E", "seed": c.Seed, "output": vc.Tail(o, 4000)}})
		return nil
	}
	for _, v := range r.Viols {
		if c.Prop != "C18" {
			continue // the event oracle belongs to C18; under C12 only race reports count
		}
		c.R.Add(vc.Violation{Property: "C18", Case: fmt.Sprintf("emitter-stack#%d", v.Case), Why: v.Why,
			Witness: map[string]interface{}{"engine": "E", "seed": c.Seed, "case": v.Case, "construction": v.Desc}})
	}
	return map[string]interface{}{
		"evaluations":         r.Cases,
		"distinct_nontrivial": r.Distinct,
		"rule": "Engine E: cff.EmitterStack / cff.NopEmitter observed at their API: random forests of stacks over 2..13 recording emitters (stacks shared between several parents, nested in any argument position, one base extended many times, chains, concurrent derivation from a shared base, no-op emitters among the arguments, a second stack built from the same argument slice) are built first, then a unique event sequence (all Task/Flow/Parallel/Scheduler emitter methods, payload identity) is driven through every stack; " +
			"each recording emitter must receive, for every stack it is part of, exactly that sequence, and nothing of any other stack. distinct = distinct construction descriptions (which emitters and stacks each stack was built from) with at least two stacks",
		"stacks_built":                                                r.Stacks,
		"stacks_sharing_a_child":                                      r.SharedParents,
		"event_sequences_driven":                                      r.Drives,
		"events_received_and_compared":                                r.Events,
		"max_nesting_depth":                                           r.MaxDepth,
		"cases_with_concurrent_derivation":                            r.Concurrent,
		"stacks_built_again_from_same_argument_slice":                 r.Reused,
		"stacks_whose_argument_slice_the_caller_overwrote_afterwards": r.ArgsMutated,
	}
}
