package main

import (
	"encoding/json"
	"fmt"
	"os"
	"path/filepath"
	"regexp"
	"sort"
	"strconv"
	"strings"
	"time"

	"verif/vc"
	"vg/prog"
)

// corpus is a set of generated programs in a scratch module.
type corpus struct {
	Dir     string
	Progs   []*prog.Program
	Dropped map[string]string // program -> why it is not in the runner
	CffOut  string
	Runner  string
	Decoys  int // programs first generated against an earlier version of their helper package
}

// scratchModG: the module of Engine G's corpus says go 1.22 (loop variables
// per iteration); three quarters of the programs pin their file - and with it
// the generated file - to an older release (prog.Program.GoTag), where loop
// variables are shared by all iterations.
var scratchModG = strings.Replace(scratchMod, "\ngo 1.19\n", "\ngo 1.22\n", 1)

var scratchMod = strings.NewReplacer("/repo", vc.RepoDir, "/verif/g", filepath.Join(vc.VerifDir, "g")).Replace(scratchModT)

const scratchModT = `module scratch

go 1.19

require (
	go.uber.org/cff v0.1.0
	vg v0.0.0
)

replace go.uber.org/cff => /repo

replace vg => /verif/g
`

func progDir(p *prog.Program) string {
	name := p.Name
	if p.Host != "" {
		name = p.Host // a guest lives in its host's file
	}
	if p.AutoInstrument {
		return "auto/" + name
	}
	return "plain/" + name
}

// writeCorpus writes the programs as cff-tagged packages.
func writeCorpus(work string, progs []*prog.Program) *corpus {
	dir := filepath.Join(work, "scratch")
	c := &corpus{Dir: dir, Progs: progs, Dropped: map[string]string{}}
	must(os.MkdirAll(dir, 0o755))
	must(os.WriteFile(filepath.Join(dir, "go.mod"), []byte(scratchModG), 0o644))
	sum, _ := os.ReadFile(filepath.Join(vc.RepoDir, "go.sum"))
	must(os.WriteFile(filepath.Join(dir, "go.sum"), sum, 0o644))
	for _, p := range progs {
		if p.Host == "" {
			writeProgFiles(dir, progDir(p), p)
		}
	}
	return c
}

// writeProgFiles writes a program (p.go and, if it imports functions, its
// helper packages) under dir/rel of the scratch module.
func writeProgFiles(dir, rel string, p *prog.Program) {
	for name, content := range p.Files("scratch/" + rel) {
		path := filepath.Join(dir, rel, name)
		must(os.MkdirAll(filepath.Dir(path), 0o755))
		must(os.WriteFile(path, []byte(content), 0o644))
	}
}

func must(err error) {
	if err != nil {
		vc.Fatalf("%v", err)
	}
}

// decoyRound: before the real generation, the programs whose functions live in
// a helper package get a first generation against an earlier version of that
// package - the same functions without their error results. The helper
// package is then replaced by the real one and everything is generated again:
// what runs afterwards must be generated from what is on disk now, although
// the directive files themselves have not changed since the first round.
func (c *corpus) decoyRound(cff string, mode string) int {
	n := 0
	for _, p := range c.Progs {
		if p.Host != "" || !p.HasFeature("spell4") {
			continue
		}
		q := cloneProg(p)
		changed := false
		for _, f := range q.AllFns() {
			if f.Spell == prog.SpImport && f.Err {
				f.Err = false
				changed = true
			}
		}
		if !changed {
			continue
		}
		files := q.Files("scratch/" + progDir(p))
		real, _ := os.ReadFile(filepath.Join(c.Dir, progDir(p), "ha", "ha.go"))
		must(os.WriteFile(filepath.Join(c.Dir, progDir(p), "ha", "ha.go"), []byte(files["ha/ha.go"]), 0o644))
		defer os.WriteFile(filepath.Join(c.Dir, progDir(p), "ha", "ha.go"), real, 0o644)
		n++
	}
	if n > 0 {
		c.runCff(cff, mode)
	}
	return n
}

// generate runs the cff binary over the corpus (mode: base, source-map).
func (c *corpus) generate(cff string, mode string) {
	c.Decoys = c.decoyRound(cff, mode)
	c.CffOut = c.runCff(cff, mode)
	for _, p := range c.Progs {
		if _, err := os.Stat(filepath.Join(c.Dir, progDir(p), "p_gen.go")); err != nil {
			c.Dropped[p.Name] = "cff wrote no output: " + grepLines(c.CffOut, p.Name+"/p.go", 3)
		}
	}
}

func (c *corpus) runCff(cff string, mode string) string {
	var out strings.Builder
	for _, sub := range []string{"plain", "auto"} {
		if _, err := os.Stat(filepath.Join(c.Dir, sub)); err != nil {
			continue
		}
		args := []string{"-genmode", mode}
		if sub == "auto" {
			args = append(args, "-auto-instrument")
		}
		args = append(args, "./"+sub+"/...")
		o, err := vc.Run(c.Dir, vc.Env(), cff, args...)
		out.WriteString(o)
		if err != nil {
			fmt.Fprintf(&out, "[cff exit: %v]\n", err)
		}
	}
	return out.String()
}

func grepLines(s, sub string, max int) string {
	var out []string
	seen := map[string]bool{}
	for _, l := range strings.Split(s, "\n") {
		if strings.Contains(l, sub) && !seen[l] {
			seen[l] = true
			out = append(out, strings.TrimSpace(l))
			if len(out) >= max {
				break
			}
		}
	}
	return strings.Join(out, " | ")
}

var pkgErrRe = regexp.MustCompile(`(?m)^(?:# scratch/)?((?:plain|auto)/[A-Za-z0-9_]+)`)

// buildRunner links every program that was generated and compiles into one
// runner binary. Programs whose generated code does not compile are dropped
// (they are C13's business) and the build is repeated.
func (c *corpus) buildRunner(race bool) {
	for attempt := 0; attempt < 6; attempt++ {
		var b strings.Builder
		b.WriteString("package main\n\nimport (\n\t\"vg/grun\"\n")
		n := 0
		for _, p := range c.Progs {
			if _, bad := c.Dropped[p.Name]; bad || p.Host != "" {
				continue
			}
			fmt.Fprintf(&b, "\t_ \"scratch/%s\"\n", progDir(p))
			n++
		}
		b.WriteString(")\n\nfunc main() { grun.Main() }\n")
		must(os.WriteFile(filepath.Join(c.Dir, "main.go"), []byte(b.String()), 0o644))
		if n == 0 {
			vc.Fatalf("no program of the corpus could be generated and compiled:\n%s", vc.Tail(c.CffOut, 3000))
		}
		out := filepath.Join(c.Dir, "runner")
		args := []string{"build", "-tags", "verif", "-o", out}
		if race {
			args = append(args, "-race")
		}
		args = append(args, ".")
		o, err := vc.Run(c.Dir, vc.Env(), "go", args...)
		if err == nil {
			c.Runner = out
			return
		}
		dropped := 0
		for _, m := range pkgErrRe.FindAllStringSubmatch(o, -1) {
			name := filepath.Base(m[1])
			if _, done := c.Dropped[name]; !done {
				c.Dropped[name] = "generated code does not compile: " + grepLines(o, m[1]+"/", 3)
				dropped++
				for _, p := range c.Progs {
					if p.Host == name {
						c.Dropped[p.Name] = c.Dropped[name]
					}
				}
			}
		}
		if dropped == 0 {
			vc.Fatalf("building the runner failed:\n%s", vc.Tail(o, 4000))
		}
	}
	vc.Fatalf("building the runner failed repeatedly")
}

// ---------------------------------------------------------------------------

type genViol struct {
	Prog     string            `json:"prog"`
	Tag      string            `json:"tag"`
	Idx      int               `json:"idx"`
	Props    []string          `json:"props"`
	Why      string            `json:"why"`
	Obs      map[string]string `json:"obs,omitempty"`
	Scenario json.RawMessage   `json:"scenario,omitempty"`
	Features []string          `json:"features,omitempty"`
	Dump     string            `json:"dump,omitempty"`
}

type genBatch struct {
	Ran         int                 `json:"ran"`
	Programs    int                 `json:"programs"`
	Viols       []genViol           `json:"viols"`
	Incon       []string            `json:"incon"`
	Calls       int64               `json:"calls"`
	ArgEvents   int64               `json:"arg_events"`
	MidPoisons  int64               `json:"mid_poisons"`
	EmitEvents  int64               `json:"emit_events"`
	SchedStates int64               `json:"sched_states"`
	ByTag       map[string]int      `json:"by_tag"`
	NonTrivial  map[string]int      `json:"nontrivial"`
	Distinct    map[string][]uint64 `json:"distinct"`
	Features    map[string]int      `json:"features"`
	MaxHWM      map[string]int      `json:"max_hwm"`
	Samples     []json.RawMessage   `json:"samples"`
	Abandoned   int                 `json:"abandoned"`
	Concurrent  int                 `json:"concurrent_execs"`
	Nested      int                 `json:"nested_execs"`
}

type genAgg struct {
	Concurrent, Nested                     int
	Programs, Dropped                      int
	Evaluations                            int
	Calls, Args, Emits, States, MidPoisons int64
	ByTag                                  map[string]int
	NonTrivial                             int
	Distinct                               map[uint64]struct{}
	Features                               map[string]int
	MaxHWM                                 map[string]int
	Samples                                []json.RawMessage
	Crashes                                int
	RaceReports                            int
	DroppedWhy                             map[string]string
}

// runGen runs the corpus' runner over all programs and feeds violations of
// c.Prop into the report.
func runGen(c *ctx, co *corpus, tags string, per int, race bool) *genAgg {
	agg := &genAgg{ByTag: map[string]int{}, Distinct: map[uint64]struct{}{}, Features: map[string]int{}, MaxHWM: map[string]int{}, DroppedWhy: co.Dropped}
	n := len(co.Progs) - len(co.Dropped)
	agg.Programs, agg.Dropped = n, len(co.Dropped)
	perBatch := 12
	if race {
		perBatch = 6
	}
	type job struct {
		from, count int
		out, prog   string
	}
	var jobs []job
	var args [][]string
	procs := []int{16, 8, 2, 4, 16, 3}
	if c.RS != nil {
		// replay: the witnessed program only, scenarios 0..idx of its family, 20 fresh processes
		n = 0
		for k := 0; k < 20 && c.RS.Engine == "G"; k++ {
			j := job{from: 0, count: 1, out: filepath.Join(co.Dir, fmt.Sprintf("g%d.json", k)), prog: filepath.Join(co.Dir, fmt.Sprintf("g%d.progress", k))}
			jobs = append(jobs, j)
			a := []string{"GOMAXPROCS=" + strconv.Itoa(procs[k%len(procs)]), co.Runner, "-seed", strconv.FormatUint(c.Seed, 10), "-only", c.RS.Program,
				"-tags", c.RS.Tag, "-per", strconv.Itoa(c.RS.Idx + 1), "-out", j.out, "-progress", j.prog}
			if race {
				a = append(a, "-quiet")
			}
			args = append(args, a)
		}
	}
	for from := 0; from < n; from += perBatch {
		k := len(jobs)
		j := job{from: from, count: perBatch, out: filepath.Join(co.Dir, fmt.Sprintf("g%d.json", k)), prog: filepath.Join(co.Dir, fmt.Sprintf("g%d.progress", k))}
		jobs = append(jobs, j)
		a := []string{"GOMAXPROCS=" + strconv.Itoa(procs[k%len(procs)]), co.Runner, "-seed", strconv.FormatUint(c.Seed, 10), "-from", strconv.Itoa(from), "-count", strconv.Itoa(perBatch),
			"-tags", tags, "-per", strconv.Itoa(per), "-out", j.out, "-progress", j.prog}
		if race {
			a = append(a, "-quiet")
		}
		args = append(args, a)
	}
	env := vc.Env()
	if race {
		env = append(env, "GORACE=halt_on_error=0 log_path="+filepath.Join(co.Dir, "race"))
	}
	stop := func() bool { return c.R.NumViolations() >= 8 }
	vc.RunChildren("/usr/bin/env", co.Dir, args, env, 16, 15*time.Minute, stop, func(i int, r vc.ChildResult) {
		j := jobs[i]
		b, err := os.ReadFile(j.out)
		// Under the race detector (halt_on_error=0) a process that saw a race runs
		// to the end and exits with status 66: its results are good, and the race
		// reports are collected from the log files.
		if err != nil || (r.ExitCode != 0 && !(race && r.ExitCode == 66)) {
			last := lastBegin(j.prog)
			if r.TimedOut {
				c.R.Inconclusive(fmt.Sprintf("engine G child [%d..%d) exceeded the hard time limit at %s", j.from, j.from+j.count, last))
				return
			}
			agg.Crashes++
			// A dead process is a containment failure (C04) or a crash of
			// generated code; every Engine G check reports it.
			c.R.Add(vc.Violation{Property: c.Prop, Case: last,
				Why:     fmt.Sprintf("the process running generated code died (exit %d) during case %q: %s", r.ExitCode, last, firstLines(crashHead(r.Output), 5)),
				Obs:     map[string]string{"crash": "1"},
				Witness: map[string]interface{}{"engine": "G", "args": r.Args, "output": vc.Tail(r.Output, 8000), "seed": c.Seed, "source": readProgSource(co, last)}})
			return
		}
		var br genBatch
		if err := json.Unmarshal(b, &br); err != nil {
			c.R.Inconclusive("unreadable batch result: " + err.Error())
			return
		}
		agg.Evaluations += br.Ran
		agg.Concurrent += br.Concurrent
		agg.Nested += br.Nested
		agg.Calls += br.Calls
		agg.Args += br.ArgEvents
		agg.MidPoisons += br.MidPoisons
		agg.Emits += br.EmitEvents
		agg.States += br.SchedStates
		for k, v := range br.ByTag {
			agg.ByTag[k] += v
		}
		agg.NonTrivial += br.NonTrivial[c.Prop]
		for _, h := range br.Distinct[c.Prop] {
			agg.Distinct[h] = struct{}{}
		}
		for _, ap := range c.AlsoProps {
			agg.NonTrivial += br.NonTrivial[ap]
			for _, h := range br.Distinct[ap] {
				agg.Distinct[h] = struct{}{}
			}
		}
		for k, v := range br.Features {
			agg.Features[k] += v
		}
		for k, v := range br.MaxHWM {
			if v > agg.MaxHWM[k] {
				agg.MaxHWM[k] = v
			}
		}
		if len(agg.Samples) < 2 {
			agg.Samples = append(agg.Samples, br.Samples...)
		}
		for _, in := range br.Incon {
			c.R.Inconclusive(in)
		}
		for _, v := range br.Viols {
			relevant := hasStr(v.Props, c.Prop)
			for _, ap := range c.AlsoProps {
				if hasStr(v.Props, ap) {
					relevant = true
				}
			}
			if !relevant {
				continue
			}
			obs := v.Obs
			if obs == nil {
				obs = map[string]string{}
			}
			obs["features"] = strings.Join(v.Features, ",")
			c.R.Add(vc.Violation{Property: c.Prop, Case: fmt.Sprintf("%s/%s/%d", v.Prog, v.Tag, v.Idx), Why: v.Why, Obs: obs,
				Witness: map[string]interface{}{"engine": "G", "seed": c.Seed, "program": v.Prog, "scenario": v.Scenario, "dump": v.Dump,
					"source": readProgSource(co, v.Prog), "generated": readProgGen(co, v.Prog)}})
		}
		os.Remove(j.out)
		os.Remove(r.OutFile)
	})
	if race {
		agg.RaceReports = collectRaces(c, co.Dir, "G")
	}
	return agg
}

func crashHead(out string) string {
	for _, key := range []string{"panic:", "fatal error:"} {
		if i := strings.Index(out, key); i >= 0 {
			return out[i:]
		}
	}
	return out
}

func hasStr(xs []string, x string) bool {
	for _, y := range xs {
		if y == x {
			return true
		}
	}
	return false
}

func findProg(co *corpus, caseName string) *prog.Program {
	name := strings.Fields(strings.ReplaceAll(caseName, "/", " ") + " x")[0]
	for _, p := range co.Progs {
		if p.Name == name {
			return p
		}
	}
	return nil
}

func readProgSource(co *corpus, caseName string) string {
	if p := findProg(co, caseName); p != nil {
		b, _ := os.ReadFile(filepath.Join(co.Dir, progDir(p), "p.go"))
		return string(b)
	}
	return ""
}

func readProgGen(co *corpus, caseName string) string {
	if p := findProg(co, caseName); p != nil {
		b, _ := os.ReadFile(filepath.Join(co.Dir, progDir(p), "p_gen.go"))
		return string(b)
	}
	return ""
}

func (a *genAgg) coverage(rule string) map[string]interface{} {
	feats := make([]string, 0, len(a.Features))
	for k, v := range a.Features {
		feats = append(feats, fmt.Sprintf("%s=%d", k, v))
	}
	sort.Strings(feats)
	return map[string]interface{}{
		"evaluations":         a.Evaluations,
		"distinct_nontrivial": min(len(a.Distinct), a.NonTrivial),
		"rule":                rule,
		"samples":             a.Samples,
		"programs_executed":   a.Programs,
		"programs_dropped":    a.Dropped,
		"simultaneous_executions_of_one_directive": a.Concurrent,
		"nested_directive_executions":              a.Nested,
		"dropped_reasons":                          a.DroppedWhy,
		"stub_calls_logged":                        a.Calls,
		"argument_events":                          a.Args,
		"argument_calls_that_overwrote_earlier_argument_variables": a.MidPoisons,
		"emitter_events":        a.Emits,
		"scheduler_states":      a.States,
		"executions_by_family":  a.ByTag,
		"program_features":      feats,
		"max_inflight_by_limit": a.MaxHWM,
		"child_crashes":         a.Crashes,
	}
}
