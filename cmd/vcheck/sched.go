package main

import (
	"encoding/json"
	"fmt"
	"os"
	"path/filepath"
	"strconv"
	"strings"
	"time"

	"verif/vc"
)

// Mirror of sched.BatchResult (the driver is built without the verif tag and
// does not import the scheduler).
type schedViol struct {
	Index    int               `json:"index"`
	Prop     string            `json:"prop"`
	Why      string            `json:"why"`
	Obs      map[string]string `json:"obs,omitempty"`
	Scenario json.RawMessage   `json:"scenario,omitempty"`
	Dump     string            `json:"dump,omitempty"`
}

type schedBatch struct {
	Family         string            `json:"family"`
	From           int               `json:"from"`
	Count          int               `json:"count"`
	Ran            int               `json:"ran"`
	Viols          []schedViol       `json:"viols"`
	Incon          []string          `json:"incon"`
	JobsSubmitted  int64             `json:"jobs_submitted"`
	JobsStarted    int64             `json:"jobs_started"`
	StateReports   int64             `json:"state_reports"`
	LateEnqueues   int64             `json:"late_enqueues"`
	Overcommit     int64             `json:"overcommit_scenarios"`
	PerturbHits    int64             `json:"perturb_hits"`
	MustNotStart   int64             `json:"must_not_start_jobs"`
	DeadCtxJobs    int64             `json:"dead_ctx_jobs"`
	BareCtxErrJobs int64             `json:"bare_ctx_err_jobs"`
	NestedErrJobs  int64             `json:"nested_err_jobs"`
	Failures       int64             `json:"failed_jobs"`
	Goexits        int64             `json:"goexit_jobs"`
	Blocked        int64             `json:"transitively_blocked_jobs"`
	CensusTaken    int64             `json:"censuses"`
	MaxCensusOverN int               `json:"max_census_minus_limit"`
	NilReturns     int64             `json:"nil_returns"`
	CancelSeen     int64             `json:"cancelled_runs"`
	NonTrivial     map[string]int    `json:"nontrivial"`
	HWMByLimit     map[string]int    `json:"hwm_by_limit"`
	Sigs           []uint64          `json:"sigs"`
	AbsStates      []uint64          `json:"abs_states"`
	Distinct       []uint64          `json:"distinct"`
	Samples        []json.RawMessage `json:"samples"`
	StuckAbandoned int               `json:"stuck_abandoned"`
	ShadowEvents   int64             `json:"shadow_events"`
	ExactStates    int64             `json:"exact_state_checks"`
}

type famCount struct {
	Family string
	Count  int
}

type schedAgg struct {
	Evaluations    int
	ByFamily       map[string]int
	Jobs, Started  int64
	States         int64
	Late           int64
	Overcommit     int64
	Perturb        int64
	MustNotStart   int64
	DeadCtxJobs    int64
	BareCtxErrJobs int64
	NestedErrJobs  int64
	Failures       int64
	Goexits        int64
	Blocked        int64
	Censuses       int64
	MaxCensusOverN int
	NilReturns     int64
	Cancelled      int64
	NonTrivial     int
	HWM            map[string]int
	Sigs           map[uint64]struct{}
	Abs            map[uint64]struct{}
	Distinct       map[uint64]struct{}
	Samples        []json.RawMessage
	Crashes        int
	RaceReports    int
	ShadowEvents   int64
	ExactStates    int64
}

// runSched runs the plan on the Engine S harness built from the working tree
// and feeds violations of c.Prop into the report.
func runSched(c *ctx, plan []famCount, race bool) *schedAgg {
	work := vc.WorkDir("sched")
	bin := vc.BuildHarness(work, "./cmd/schedh", "schedh", race, "verif")
	agg := &schedAgg{ByFamily: map[string]int{}, HWM: map[string]int{}, Sigs: map[uint64]struct{}{}, Abs: map[uint64]struct{}{}, Distinct: map[uint64]struct{}{}}

	type job struct {
		fam         string
		from, count int
		out, prog   string
		maxprocs    int
	}
	var jobs []job
	var args [][]string
	if c.RS != nil {
		// replay: the witnessed scenario only, 200 times in fresh processes
		plan = nil
		if c.RS.Engine == "S" {
			for k := 0; k < 200; k++ {
				j := job{fam: c.RS.Family, from: c.RS.Index, count: 1,
					out:  filepath.Join(work, fmt.Sprintf("b%d.json", k)),
					prog: filepath.Join(work, fmt.Sprintf("b%d.progress", k))}
				jobs = append(jobs, j)
				a := []string{"-seed", strconv.FormatUint(c.Seed, 10), "-family", j.fam, "-from", strconv.Itoa(j.from), "-count", "1", "-out", j.out, "-progress", j.prog}
				if race {
					a = append(a, "-quiet")
				}
				args = append(args, a)
			}
		}
	}
	for _, fc := range plan {
		per := 150
		switch fc.Family {
		case "wide":
			per = 12
		case "fanin":
			per = 2
		case "drain":
			per = 100
		}
		if race {
			per = per / 2
		}
		for from := 0; from < fc.Count; from += per {
			n := per
			if from+n > fc.Count {
				n = fc.Count - from
			}
			k := len(jobs)
			j := job{fam: fc.Family, from: from, count: n,
				out:  filepath.Join(work, fmt.Sprintf("b%d.json", k)),
				prog: filepath.Join(work, fmt.Sprintf("b%d.progress", k))}
			jobs = append(jobs, j)
			a := []string{"-seed", strconv.FormatUint(c.Seed, 10), "-family", fc.Family,
				"-from", strconv.Itoa(from), "-count", strconv.Itoa(n), "-out", j.out, "-progress", j.prog}
			if race {
				a = append(a, "-quiet")
			}
			args = append(args, a)
		}
	}
	env := vc.Env()
	if race {
		env = append(env, "GORACE=halt_on_error=0 log_path="+filepath.Join(work, "race"))
	}
	// Children vary GOMAXPROCS (the default worker limit depends on it).
	procs := []int{16, 8, 2, 4, 16, 3}
	for i := range args {
		args[i] = append([]string{"GOMAXPROCS=" + strconv.Itoa(procs[i%len(procs)])}, args[i]...)
	}
	stop := func() bool { return c.R.NumViolations() >= 6 }
	vc.RunChildren("/usr/bin/env", work, prefixBin(args, bin), env, 16, 15*time.Minute, stop, func(i int, r vc.ChildResult) {
		j := jobs[i]
		if os.Getenv("VERIF_DEBUG") != "" {
			fmt.Fprintf(os.Stderr, "child %d %s[%d..%d) wall=%v exit=%d\n", i, j.fam, j.from, j.from+j.count, r.Wall, r.ExitCode)
		}
		b, err := os.ReadFile(j.out)
		// Under the race detector (halt_on_error=0) a process that saw a race runs
		// to the end and exits with status 66: its results are good, and the race
		// reports are collected from the log files.
		if err != nil || (r.ExitCode != 0 && !(race && r.ExitCode == 66)) {
			last := lastBegin(j.prog)
			if r.TimedOut {
				c.R.Inconclusive(fmt.Sprintf("engine S child %s[%d..%d) exceeded the hard time limit at scenario %s", j.fam, j.from, j.from+j.count, last))
				return
			}
			agg.Crashes++
			c.R.Add(vc.Violation{Property: c.Prop, Case: fmt.Sprintf("%s#%s", j.fam, last),
				Why:     fmt.Sprintf("the harness process died (exit %d) while running scenario %s of family %s: %s", r.ExitCode, last, j.fam, firstLines(r.Output, 6)),
				Witness: map[string]interface{}{"args": r.Args, "output": vc.Tail(r.Output, 6000), "seed": c.Seed}})
			return
		}
		var br schedBatch
		if err := json.Unmarshal(b, &br); err != nil {
			c.R.Inconclusive("unreadable batch result: " + err.Error())
			return
		}
		agg.Evaluations += br.Ran
		agg.ByFamily[br.Family] += br.Ran
		agg.Jobs += br.JobsSubmitted
		agg.Started += br.JobsStarted
		agg.States += br.StateReports
		agg.Late += br.LateEnqueues
		agg.Overcommit += br.Overcommit
		agg.Perturb += br.PerturbHits
		agg.ShadowEvents += br.ShadowEvents
		agg.ExactStates += br.ExactStates
		agg.MustNotStart += br.MustNotStart
		agg.DeadCtxJobs += br.DeadCtxJobs
		agg.BareCtxErrJobs += br.BareCtxErrJobs
		agg.NestedErrJobs += br.NestedErrJobs
		agg.Failures += br.Failures
		agg.Goexits += br.Goexits
		agg.Blocked += br.Blocked
		agg.Censuses += br.CensusTaken
		agg.NilReturns += br.NilReturns
		agg.Cancelled += br.CancelSeen
		if br.MaxCensusOverN > agg.MaxCensusOverN {
			agg.MaxCensusOverN = br.MaxCensusOverN
		}
		agg.NonTrivial += br.NonTrivial[c.Prop]
		for k, v := range br.HWMByLimit {
			if v > agg.HWM[k] {
				agg.HWM[k] = v
			}
		}
		for _, s := range br.Sigs {
			agg.Sigs[s] = struct{}{}
		}
		for _, s := range br.AbsStates {
			agg.Abs[s] = struct{}{}
		}
		for _, s := range br.Distinct {
			agg.Distinct[s^hashS(br.Family)] = struct{}{}
		}
		if len(agg.Samples) < 3 {
			agg.Samples = append(agg.Samples, br.Samples...)
		}
		for _, in := range br.Incon {
			c.R.Inconclusive(in)
		}
		for _, v := range br.Viols {
			if v.Prop != c.Prop {
				continue // another property's oracle fired; that property's own check reports it
			}
			c.R.Add(vc.Violation{Property: c.Prop, Case: fmt.Sprintf("%s#%d", br.Family, v.Index), Why: v.Why, Obs: v.Obs,
				Witness: map[string]interface{}{"engine": "S", "seed": c.Seed, "family": br.Family, "index": v.Index, "scenario": v.Scenario, "dump": v.Dump}})
		}
		os.Remove(j.out)
		os.Remove(r.OutFile)
	})
	if race {
		agg.RaceReports = collectRaces(c, work, "S")
	}
	return agg
}

func prefixBin(args [][]string, bin string) [][]string {
	out := make([][]string, len(args))
	for i, a := range args {
		// env GOMAXPROCS=n <bin> args...
		out[i] = append([]string{a[0], bin}, a[1:]...)
	}
	return out
}

func hashS(s string) uint64 {
	h := uint64(1469598103934665603)
	for i := 0; i < len(s); i++ {
		h ^= uint64(s[i])
		h *= 1099511628211
	}
	return h
}

func lastBegin(p string) string {
	b, _ := os.ReadFile(p)
	lines := strings.Split(strings.TrimSpace(string(b)), "\n")
	if len(lines) == 0 {
		return "?"
	}
	return strings.TrimPrefix(lines[len(lines)-1], "BEGIN ")
}

func firstLines(s string, n int) string {
	l := strings.Split(s, "\n")
	if len(l) > n {
		l = l[:n]
	}
	return strings.Join(l, " | ")
}

func (a *schedAgg) coverage(rule string) map[string]interface{} {
	return map[string]interface{}{
		"evaluations":                 a.Evaluations,
		"distinct_nontrivial":         min(len(a.Distinct), a.NonTrivial),
		"rule":                        rule,
		"samples":                     a.Samples,
		"scenarios_by_family":         a.ByFamily,
		"jobs_submitted":              a.Jobs,
		"job_bodies_started":          a.Started,
		"state_reports_checked":       a.States,
		"late_enqueues_seen_by_loop":  a.Late,
		"perturbations_injected":      a.Perturb,
		"must_not_start_jobs_checked": a.MustNotStart,
		"jobs_submitted_with_own_done_context_that_reached_a_worker": a.DeadCtxJobs,
		"jobs_that_failed_with_a_bare_context_sentinel":              a.BareCtxErrJobs,
		"jobs_that_failed_with_a_nested_schedulers_goexit_error":     a.NestedErrJobs,
		"failed_jobs":                             a.Failures,
		"goexit_jobs":                             a.Goexits,
		"transitively_blocked_jobs":               a.Blocked,
		"goroutine_censuses":                      a.Censuses,
		"max_scheduler_goroutines_over_N":         a.MaxCensusOverN,
		"nil_returns":                             a.NilReturns,
		"cancelled_runs":                          a.Cancelled,
		"max_inflight_by_limit":                   a.HWM,
		"distinct_loop_arm_interleavings":         len(a.Sigs),
		"distinct_abstract_loop_states":           len(a.Abs),
		"scenarios_with_ongoing_above_N":          a.Overcommit,
		"child_crashes":                           a.Crashes,
		"loop_events_checked_by_shadow_model":     a.ShadowEvents,
		"state_reports_compared_exactly_to_model": a.ExactStates,
	}
}

func schedEvidence(c *ctx, a *schedAgg, rule string, extra map[string]interface{}, assumptions []string) {
	cov := a.coverage(rule)
	for k, v := range extra {
		cov[k] = v
	}
	cov["inconclusive"] = len(c.R.Incon)
	cov["known_findings_hit"] = c.R.KnownHits()
	ev := &vc.Evidence{PropertyID: c.Prop, Tier: c.Tier, Seed: int64(c.Seed), Level: "exploration", Coverage: cov,
		Assumptions: assumptions, WallS: time.Since(c.R.Start).Seconds(), Violations: c.R.NumViolations()}
	if err := ev.Write(); err != nil {
		vc.Fatalf("writing evidence: %v", err)
	}
}
