package main

import (
	"fmt"
	"go/ast"
	"go/build/constraint"
	"go/parser"
	"go/token"
	"os"
	"path/filepath"
	"sort"
	"strings"

	"verif/vc"
	"vg/prog"
)

// ---------------------------------------------------------------------------
// C16 (a): only directive calls are rewritten.

// maskDirectives replaces, in a source file, every outermost call into the cff
// package named Flow or Parallel by the identifier __DIRECTIVE__, and in an
// output file every immediately-invoked `func() (err error) {...}()` literal.
func maskSource(f *ast.File) int {
	names := map[string]bool{}
	for _, im := range f.Imports {
		if strings.Trim(im.Path.Value, `"`) == "go.uber.org/cff" {
			if im.Name == nil {
				names["cff"] = true
			} else {
				names[im.Name.Name] = true
			}
		}
	}
	n := 0
	isDirective := func(e ast.Expr) bool {
		ce, ok := e.(*ast.CallExpr)
		if !ok {
			return false
		}
		sel, ok := ce.Fun.(*ast.SelectorExpr)
		if !ok {
			return false
		}
		id, ok := sel.X.(*ast.Ident)
		return ok && names[id.Name] && (sel.Sel.Name == "Flow" || sel.Sel.Name == "Parallel")
	}
	rewriteExprs(f, func(e ast.Expr) (ast.Expr, bool) {
		if isDirective(e) {
			n++
			return &ast.Ident{Name: "__DIRECTIVE__"}, true
		}
		return e, false
	})
	return n
}

func maskOutput(f *ast.File) int {
	n := 0
	isIIFE := func(e ast.Expr) bool {
		ce, ok := e.(*ast.CallExpr)
		if !ok || len(ce.Args) != 0 {
			return false
		}
		fl, ok := ce.Fun.(*ast.FuncLit)
		if !ok || fl.Type.Params == nil || len(fl.Type.Params.List) != 0 || fl.Type.Results == nil || len(fl.Type.Results.List) != 1 {
			return false
		}
		r := fl.Type.Results.List[0]
		id, ok := r.Type.(*ast.Ident)
		return ok && id.Name == "error" && len(r.Names) == 1 && (r.Names[0].Name == "err" || r.Names[0].Name == "_cffErr")
	}
	rewriteExprs(f, func(e ast.Expr) (ast.Expr, bool) {
		if isIIFE(e) {
			n++
			return &ast.Ident{Name: "__DIRECTIVE__"}, true
		}
		return e, false
	})
	return n
}

// rewriteExprs applies fn to every expression slot reachable from f, outermost
// first; when fn replaces an expression its sub-tree is not visited.
func rewriteExprs(f *ast.File, fn func(ast.Expr) (ast.Expr, bool)) {
	var visit func(n ast.Node)
	re := func(e ast.Expr) ast.Expr {
		if e == nil {
			return nil
		}
		if ne, ok := fn(e); ok {
			return ne
		}
		visit(e)
		return e
	}
	reList := func(l []ast.Expr) {
		for i := range l {
			l[i] = re(l[i])
		}
	}
	visit = func(n ast.Node) {
		switch x := n.(type) {
		case nil:
		case *ast.File:
			for _, d := range x.Decls {
				visit(d)
			}
		case *ast.GenDecl:
			for _, s := range x.Specs {
				if vs, ok := s.(*ast.ValueSpec); ok {
					reList(vs.Values)
				}
			}
		case *ast.FuncDecl:
			if x.Body != nil {
				visit(x.Body)
			}
		case *ast.BlockStmt:
			for _, s := range x.List {
				visit(s)
			}
		case *ast.ExprStmt:
			x.X = re(x.X)
		case *ast.AssignStmt:
			reList(x.Lhs)
			reList(x.Rhs)
		case *ast.ReturnStmt:
			reList(x.Results)
		case *ast.IfStmt:
			visit(x.Init)
			x.Cond = re(x.Cond)
			visit(x.Body)
			visit(x.Else)
		case *ast.ForStmt:
			visit(x.Init)
			x.Cond = re(x.Cond)
			visit(x.Post)
			visit(x.Body)
		case *ast.RangeStmt:
			x.X = re(x.X)
			visit(x.Body)
		case *ast.SwitchStmt:
			visit(x.Init)
			x.Tag = re(x.Tag)
			visit(x.Body)
		case *ast.TypeSwitchStmt:
			visit(x.Init)
			visit(x.Assign)
			visit(x.Body)
		case *ast.CaseClause:
			reList(x.List)
			for _, s := range x.Body {
				visit(s)
			}
		case *ast.SelectStmt:
			visit(x.Body)
		case *ast.CommClause:
			visit(x.Comm)
			for _, s := range x.Body {
				visit(s)
			}
		case *ast.LabeledStmt:
			visit(x.Stmt)
		case *ast.DeferStmt:
			if ne := re(x.Call); ne != x.Call {
				if ce, ok := ne.(*ast.CallExpr); ok {
					x.Call = ce
				}
			}
		case *ast.GoStmt:
			if ne := re(x.Call); ne != x.Call {
				if ce, ok := ne.(*ast.CallExpr); ok {
					x.Call = ce
				}
			}
		case *ast.DeclStmt:
			visit(x.Decl)
		case *ast.SendStmt:
			x.Chan = re(x.Chan)
			x.Value = re(x.Value)
		case *ast.IncDecStmt:
			x.X = re(x.X)
		// expressions
		case *ast.CallExpr:
			x.Fun = re(x.Fun)
			reList(x.Args)
		case *ast.FuncLit:
			visit(x.Body)
		case *ast.ParenExpr:
			x.X = re(x.X)
		case *ast.UnaryExpr:
			x.X = re(x.X)
		case *ast.BinaryExpr:
			x.X = re(x.X)
			x.Y = re(x.Y)
		case *ast.SelectorExpr:
			x.X = re(x.X)
		case *ast.IndexExpr:
			x.X = re(x.X)
			x.Index = re(x.Index)
		case *ast.StarExpr:
			x.X = re(x.X)
		case *ast.TypeAssertExpr:
			x.X = re(x.X)
		case *ast.CompositeLit:
			reList(x.Elts)
		case *ast.KeyValueExpr:
			x.Key = re(x.Key)
			x.Value = re(x.Value)
		case *ast.SliceExpr:
			x.X = re(x.X)
		}
	}
	visit(f)
}

// preserved compares a source file and its output: identical after masking
// directives, imports only added.
func preserved(srcPath, outPath string) (ok bool, why string, directives int) {
	fs := token.NewFileSet()
	src, err := parser.ParseFile(fs, srcPath, nil, parser.SkipObjectResolution)
	if err != nil {
		return false, "source does not parse: " + err.Error(), 0
	}
	out, err := parser.ParseFile(fs, outPath, nil, parser.SkipObjectResolution)
	if err != nil {
		return false, "output does not parse: " + err.Error(), 0
	}
	imps := func(f *ast.File) map[string]bool {
		m := map[string]bool{}
		for _, im := range f.Imports {
			n := ""
			if im.Name != nil {
				n = im.Name.Name
			}
			m[n+" "+im.Path.Value] = true
		}
		return m
	}
	si, oi := imps(src), imps(out)
	for k := range si {
		if !oi[k] {
			return false, "import " + k + " of the source is missing from the output", 0
		}
	}
	ns := maskSource(src)
	no := maskOutput(out)
	if ns != no {
		return false, fmt.Sprintf("the source has %d top-level directive calls, the output has %d generated closures", ns, no), ns
	}
	strip := func(f *ast.File) []ast.Decl {
		var ds []ast.Decl
		for _, d := range f.Decls {
			if gd, ok := d.(*ast.GenDecl); ok && gd.Tok == token.IMPORT {
				continue
			}
			ds = append(ds, d)
		}
		return ds
	}
	if src.Name.Name != out.Name.Name {
		return false, "package clause changed", ns
	}
	eq, where := astEqual(strip(src), strip(out), "decls")
	if !eq {
		return false, "code outside directive calls differs at " + where, ns
	}
	return true, "", ns
}

// ---------------------------------------------------------------------------
// C16 (b): build constraints.

var tags3 = []string{"cff", "a", "b"}

func enumExprs(depth int) []constraint.Expr {
	cur := []constraint.Expr{}
	for _, t := range tags3 {
		cur = append(cur, &constraint.TagExpr{Tag: t})
	}
	all := append([]constraint.Expr{}, cur...)
	for d := 0; d < depth; d++ {
		var next []constraint.Expr
		for _, x := range all {
			if _, isNot := x.(*constraint.NotExpr); isNot {
				continue // "!!x" is not valid constraint syntax
			}
			next = append(next, &constraint.NotExpr{X: x})
		}
		for _, x := range all {
			for _, y := range all {
				next = append(next, &constraint.AndExpr{X: x, Y: y}, &constraint.OrExpr{X: x, Y: y})
			}
		}
		all = append(all, next...)
	}
	// dedupe by printed form
	seen := map[string]bool{}
	var out []constraint.Expr
	for _, e := range all {
		s := e.String()
		if !seen[s] {
			seen[s] = true
			out = append(out, e)
		}
	}
	return out
}

func randExpr(r *prog.Rand, depth int) constraint.Expr {
	if depth == 0 || r.Chance(1, 4) {
		return &constraint.TagExpr{Tag: tags3[r.Intn(3)]}
	}
	switch r.Intn(3) {
	case 0:
		x := randExpr(r, depth-1)
		if _, isNot := x.(*constraint.NotExpr); isNot {
			return x
		}
		return &constraint.NotExpr{X: x}
	case 1:
		return &constraint.AndExpr{X: randExpr(r, depth-1), Y: randExpr(r, depth-1)}
	}
	return &constraint.OrExpr{X: randExpr(r, depth-1), Y: randExpr(r, depth-1)}
}

func mentionsCff(e constraint.Expr) bool {
	found := false
	e.Eval(func(t string) bool {
		if t == "cff" {
			found = true
		}
		return false
	})
	return found
}

func evalWith(e constraint.Expr, mask int) bool {
	return e.Eval(func(t string) bool {
		for i, n := range tags3 {
			if n == t {
				return mask>>i&1 == 1
			}
		}
		return false
	})
}

// headerConstraints parses the constraint lines before the package clause.
func headerConstraints(src string) (goBuild []constraint.Expr, plusBuild []constraint.Expr) {
	for _, line := range strings.Split(src, "\n") {
		t := strings.TrimSpace(line)
		if strings.HasPrefix(t, "package ") {
			break
		}
		if constraint.IsGoBuild(t) {
			if e, err := constraint.Parse(t); err == nil {
				goBuild = append(goBuild, e)
			}
		} else if constraint.IsPlusBuild(t) {
			if e, err := constraint.Parse(t); err == nil {
				plusBuild = append(plusBuild, e)
			}
		}
	}
	return
}

func conj(es []constraint.Expr, mask int) bool {
	for _, e := range es {
		if !evalWith(e, mask) {
			return false
		}
	}
	return true
}

// invertedOK: for all 8 assignments, out(sigma) == src(sigma with cff flipped).
func invertedOK(src, out []constraint.Expr) (bool, string) {
	if len(src) == 0 {
		return len(out) == 0, "output has a constraint the source did not have"
	}
	for mask := 0; mask < 8; mask++ {
		if conj(out, mask) != conj(src, mask^1) {
			return false, fmt.Sprintf("with tags cff=%v a=%v b=%v the output is selected=%v but the source with cff flipped is selected=%v", mask&1 == 1, mask&2 == 2, mask&4 == 4, conj(out, mask), conj(src, mask^1))
		}
	}
	return true, ""
}

const trivialBody = `
package %s

import (
	"context"

	"go.uber.org/cff"
)

func F%d(ctx context.Context) (s string, err error) {
	err = cff.Flow(ctx,
		cff.Params(%d),
		cff.Results(&s),
		cff.Task(func(i int) string { return string(rune('a' + i%%26)) }),
	)
	return
}
`

func checkC16(c *ctx) {
	work := vc.WorkDir("c16")
	cff := vc.BuildCff(work)
	evals := 0
	distinct := map[string]bool{}
	var samples []interface{}

	// ---- (b) constraints ----------------------------------------------------
	type cfile struct {
		name   string
		header string
		masks  []int // assignments (with cff=1) under which the source is selected
	}
	var cfiles []cfile
	exprs := enumExprs(c.pick(1, 2))
	if !c.Thor {
		// quick: depth-1 exhaustively plus a seeded sample of depth 2..3
		r := prog.NewRand(c.Seed, hashS("C16b"))
		for i := 0; i < 300; i++ {
			exprs = append(exprs, randExpr(r, 2+r.Intn(2)))
		}
	} else {
		r := prog.NewRand(c.Seed, hashS("C16b"))
		for i := 0; i < 3000; i++ {
			exprs = append(exprs, randExpr(r, 3+r.Intn(2)))
		}
	}
	exhaustiveDepth := c.pick(1, 2)
	add := func(header string, es ...constraint.Expr) {
		var masks []int
		for mask := 1; mask < 8; mask += 2 { // cff = 1
			if conj(es, mask) {
				masks = append(masks, mask)
			}
		}
		if len(masks) == 0 {
			return // never selected together with cff: cff cannot see the file
		}
		cfiles = append(cfiles, cfile{name: fmt.Sprintf("e%05d", len(cfiles)), header: header, masks: masks})
	}
	rr := prog.NewRand(c.Seed, hashS("C16b-forms"))
	for _, e := range exprs {
		if !mentionsCff(e) {
			continue
		}
		if _, err := constraint.Parse("//go:build " + e.String()); err != nil {
			continue // not expressible as a constraint line
		}
		add("//go:build "+e.String()+"\n", e)
		if lines, err := constraint.PlusBuildLines(e); err == nil && rr.Chance(1, 2) {
			var es []constraint.Expr
			for _, l := range lines {
				pe, _ := constraint.Parse(l)
				es = append(es, pe)
			}
			add(strings.Join(lines, "\n")+"\n", es...)
			if rr.Chance(1, 2) {
				add("//go:build "+e.String()+"\n"+strings.Join(lines, "\n")+"\n", e)
			}
		}
	}
	// hand-made +build forms: comma = and, space = or, several lines = and
	plusAtoms := []string{"cff", "!cff", "a", "!a", "b", "!b", "cff,a", "cff,!b", "!cff,a", "a,b"}
	for i := 0; i < c.pick(150, 1500); i++ {
		nl := 1 + rr.Intn(2)
		var lines []string
		var es []constraint.Expr
		for l := 0; l < nl; l++ {
			nw := 1 + rr.Intn(3)
			var ws []string
			for w := 0; w < nw; w++ {
				ws = append(ws, plusAtoms[rr.Intn(len(plusAtoms))])
			}
			line := "// +build " + strings.Join(ws, " ")
			pe, err := constraint.Parse(line)
			if err != nil {
				continue
			}
			lines = append(lines, line)
			es = append(es, pe)
		}
		hasCff := false
		for _, e := range es {
			if mentionsCff(e) {
				hasCff = true
			}
		}
		if hasCff {
			add(strings.Join(lines, "\n")+"\n", es...)
		}
	}
	cdir := newScratch(work, "cons")
	pkgdir := filepath.Join(cdir, "cons")
	srcOf := map[string]string{}
	// What may legally precede the constraint lines: line comments and blank
	// lines for both syntaxes, a block comment for //go:build (go/build stops
	// looking for // +build lines at a block comment, so that form is used with
	// //go:build-only headers).
	pr := prog.NewRand(c.Seed, hashS("C16b-preamble"))
	for i := range cfiles {
		h := cfiles[i].header
		switch pr.Intn(10) {
		case 8:
			cfiles[i].header = "// Fixtures live in testdata/*.txt (one per case).\n\n" + h
		case 9:
			cfiles[i].header = "// Copyright (c) the authors. /* not a block comment */\n//\n// More text.\n\n" + h
		case 0:
			cfiles[i].header = "// Copyright (c) the authors.\n// Licensed under the terms in LICENSE.\n\n" + h
		case 1:
			cfiles[i].header = "\n\n" + h
		case 2:
			if !strings.Contains(h, "+build") {
				cfiles[i].header = "/* Copyright (c) the authors.\n   Licensed under the terms in LICENSE. */\n\n" + h
			}
		case 3:
			if !strings.Contains(h, "+build") {
				cfiles[i].header = "/* generated header */\n" + h
			}
		}
	}
	for i, cf := range cfiles {
		src := cf.header + fmt.Sprintf(trivialBody, "cons", i, i)
		srcOf[cf.name] = src
		writeFile(filepath.Join(pkgdir, cf.name+".go"), src)
	}
	outOf := map[string]string{}
	for _, mk := range []int{1, 3, 5, 7, 7 | 8} {
		mask, repeated := mk&7, mk&8 != 0 // (8: the -tags flag is given once per tag instead of once with a comma-separated list)
		var tags []string
		if mask&2 != 0 {
			tags = append(tags, "a")
		}
		if mask&4 != 0 {
			tags = append(tags, "b")
		}
		args := []string{"-quiet"}
		if repeated {
			for _, t := range tags {
				args = append(args, "-tags", t)
			}
		} else if len(tags) > 0 {
			args = append(args, "-tags", strings.Join(tags, ","))
		}
		args = append(args, "./cons")
		tr := runTool(cdir, cff, args...)
		if crashed(tr) {
			c.R.Add(vc.Violation{Property: "C16", Case: fmt.Sprintf("constraints/tags=%v", tags), Why: "cff crashed: " + firstLines(crashHead(tr.Stderr), 3)})
		}
		for _, cf := range cfiles {
			gp := filepath.Join(pkgdir, cf.name+"_gen.go")
			b, err := os.ReadFile(gp)
			selected := false
			for _, m := range cf.masks {
				if m == mask {
					selected = true
				}
			}
			if err == nil {
				if prev, ok := outOf[cf.name]; ok && prev != string(b) {
					c.R.Add(vc.Violation{Property: "C16", Case: "constraints/" + cf.name, Why: "the output differs between two tag sets under which the source is selected", Witness: map[string]interface{}{"source": srcOf[cf.name], "a": prev, "b": string(b)}})
				}
				outOf[cf.name] = string(b)
				os.Remove(gp)
				if !selected {
					c.R.Add(vc.Violation{Property: "C16", Case: "constraints/" + cf.name, Why: fmt.Sprintf("cff wrote an output for a file that is not selected under tags cff,%v", tags), Witness: map[string]interface{}{"source": srcOf[cf.name], "stderr": tr.Stderr}})
				}
			} else if selected && tr.Exit == 0 {
				c.R.Add(vc.Violation{Property: "C16", Case: "constraints/" + cf.name, Why: fmt.Sprintf("cff exited 0 under tags cff,%v but wrote no output for a selected file", tags), Witness: map[string]interface{}{"source": srcOf[cf.name], "stderr": tr.Stderr}})
			}
		}
	}
	consChecked := 0
	for _, cf := range cfiles {
		out, ok := outOf[cf.name]
		if !ok {
			continue
		}
		evals++
		consChecked++
		distinct["cons:"+cf.header] = true
		sg, sp := headerConstraints(srcOf[cf.name])
		og, op := headerConstraints(out)
		// What the go command does with a file: a //go:build line, if present,
		// decides; otherwise the conjunction of the // +build lines.
		sel := func(g, p []constraint.Expr) []constraint.Expr {
			if len(g) > 0 {
				return g
			}
			return p
		}
		if okk, why := invertedOK(sel(sg, sp), sel(og, op)); !okk {
			c.R.Add(vc.Violation{Property: "C16", Case: "constraints/" + cf.name, Why: "the generated file is not selected exactly when the source is selected with the cff tag flipped: " + why + "; source header: " + strings.ReplaceAll(strings.TrimSpace(cf.header), "\n", " ; ") + "; output header: " + headerOf(out),
				Obs: map[string]string{"clause": "selection"}, Witness: map[string]interface{}{"source_header": cf.header, "output_header": headerOf(out)}})
		}
		// Each syntax that the source uses must itself be inverted exactly
		// (gofmt may add a //go:build line equivalent to the // +build lines).
		if len(sg) > 0 {
			if okk, why := invertedOK(sg, og); !okk {
				c.R.Add(vc.Violation{Property: "C16", Case: "constraints/" + cf.name, Why: "//go:build line not inverted exactly: " + why + "; source header: " + strings.TrimSpace(cf.header) + "; output header: " + headerOf(out),
					Obs: map[string]string{"clause": "go:build"}, Witness: map[string]interface{}{"source_header": cf.header, "output_header": headerOf(out)}})
			}
		}
		if len(sp) > 0 {
			if okk, why := invertedOK(sp, op); !okk {
				c.R.Add(vc.Violation{Property: "C16", Case: "constraints/" + cf.name, Why: "// +build lines not inverted exactly: " + why + "; source header: " + strings.TrimSpace(cf.header) + "; output header: " + headerOf(out),
					Obs: map[string]string{"clause": "+build"}, Witness: map[string]interface{}{"source_header": cf.header, "output_header": headerOf(out)}})
			}
		}
		if len(samples) < 2 {
			samples = append(samples, map[string]interface{}{"source_header": cf.header, "output_header": headerOf(out)})
		}
	}

	// ---- (a) preservation and (c) footprint -----------------------------------
	o := prog.DefaultOpts()
	pdir := newScratch(work, "pres")
	pkgs := toolCorpus(c, pdir, "C16", c.pick(25, 250), c.pick(25, 250), c.pick(40, 400), o)
	// an untouched bystander package and bystander files
	writeFile(filepath.Join(pdir, "bystander", "b.go"), "package bystander\n\nfunc B() int { return 1 }\n")
	writeFile(filepath.Join(pdir, "s", "README.txt"), "not a Go file\n")
	// Let the go command settle go.mod/go.sum first (with -mod=mod it rewrites
	// them on its own; that is not cff's doing).
	vc.Run(pdir, vc.Env(), "go", "list", "-tags", "cff", "./...")
	before := snapshot(pdir)
	type sel struct {
		p     *toolPkg
		files map[string]string // selected input -> output path (relative to module)
		all   bool
		args  []string
	}
	sels := make([]*sel, len(pkgs))
	parallel(len(pkgs), func(i int) {
		p := pkgs[i]
		r := prog.NewRand(c.Seed, hashS("C16sel"), hashS(p.Rel))
		s := &sel{p: p, files: map[string]string{}}
		args := []string{"-quiet"}
		if r.Chance(1, 3) {
			args = append(args, "-genmode", "source-map")
		}
		switch {
		case p.Kind == "static" && r.Chance(1, 2):
			// a random -file selection, sometimes with an explicit output path
			for _, fn := range p.Files {
				if r.Chance(1, 2) {
					if r.Chance(1, 3) {
						out := filepath.Join(pdir, p.Rel, "custom_"+strings.TrimSuffix(fn, ".go")+"_out.go")
						args = append(args, "-file", fn+"="+out)
						s.files[fn] = filepath.Join(p.Rel, filepath.Base(out))
					} else {
						args = append(args, "-file", fn)
						s.files[fn] = filepath.Join(p.Rel, genName(fn))
					}
				}
			}
			if len(s.files) == 0 {
				fn := p.Files[0]
				args = append(args, "-file", fn)
				s.files[fn] = filepath.Join(p.Rel, genName(fn))
			}
		default:
			s.all = true
			for _, fn := range p.Files {
				s.files[fn] = filepath.Join(p.Rel, genName(fn))
			}
		}
		args = append(args, "./"+p.Rel)
		s.args = args
		p.run = runTool(pdir, cff, args...)
		sels[i] = s
	})
	after := snapshot(pdir)
	// The same invocations once more, now with every output of the first round
	// in place (a generator is normally re-run over a tree that holds its earlier
	// output): same exit status, and the tree afterwards is byte for byte the
	// tree after the first round.
	rerun := 0
	// Round 2a: as is. Round 2b: every output of the first round first gets a
	// tail appended, i.e. the path holds a longer, different file from "an
	// earlier version of the source" - it must be replaced as a whole.
	for round := 0; round < 2; round++ {
		if round == 1 {
			firstOutputs, _, _ := diffSnap(before, after)
			for _, p := range firstOutputs {
				if strings.HasSuffix(p, ".go") {
					f, err := os.OpenFile(filepath.Join(pdir, p), os.O_APPEND|os.O_WRONLY, 0)
					if err == nil {
						f.WriteString("\n// tail of an earlier, longer output\nfunc staleTail() { staleTail() }\n" + strings.Repeat("// padding padding padding padding\n", 40))
						f.Close()
					}
				}
			}
		}
		rerunRound(c, cff, pdir, pkgs, func(i int) []string { return sels[i].args }, after, round, &rerun)
	}
	created, changed, removed := diffSnap(before, after)
	expected := map[string]bool{}
	for _, s := range sels {
		if s.p.run.Exit != 0 {
			continue
		}
		for _, out := range s.files {
			expected[out] = true
		}
	}
	for _, p := range changed {
		if p == "go.mod" || p == "go.sum" {
			continue // maintained by the go command that the package loader runs
		}
		c.R.Add(vc.Violation{Property: "C16", Case: "footprint/" + p, Why: "cff modified a file that existed before: " + p, Obs: map[string]string{"clause": "footprint"}})
	}
	for _, p := range removed {
		c.R.Add(vc.Violation{Property: "C16", Case: "footprint/" + p, Why: "cff removed a file: " + p, Obs: map[string]string{"clause": "footprint"}})
	}
	for _, p := range created {
		if !expected[p] {
			c.R.Add(vc.Violation{Property: "C16", Case: "footprint/" + p, Why: "cff created a file outside the documented output paths of the selected inputs: " + p, Obs: map[string]string{"clause": "footprint"}})
		}
	}
	sort.Strings(created)
	presChecked := 0
	for _, s := range sels {
		if s.p.run.Exit != 0 {
			continue
		}
		for fn, out := range s.files {
			if _, err := os.Stat(filepath.Join(pdir, out)); err != nil {
				// every input file of this corpus contains a directive
				c.R.Add(vc.Violation{Property: "C16", Case: "footprint/" + out, Why: "cff exited 0 for the selected input " + filepath.Join(s.p.Rel, fn) + " but did not write its documented output path " + out, Obs: map[string]string{"clause": "footprint"}})
				continue
			}
			evals++
			presChecked++
			ok, why, nd := preserved(filepath.Join(pdir, s.p.Rel, fn), filepath.Join(pdir, out))
			distinct[fmt.Sprintf("pres:%s/%s", s.p.Rel, fn)] = true
			_ = nd
			if !ok {
				src, _ := os.ReadFile(filepath.Join(pdir, s.p.Rel, fn))
				gen, _ := os.ReadFile(filepath.Join(pdir, out))
				c.R.Add(vc.Violation{Property: "C16", Case: "preservation/" + s.p.Rel + "/" + fn, Why: why, Obs: map[string]string{"clause": "preservation"},
					Witness: map[string]interface{}{"source": string(src), "output": string(gen)}})
			}
		}
	}
	// ---- (c') one invocation over a whole tree (./...) whose layout contains
	// directories that are not packages of the module: testdata, a nested module,
	// directories starting with _ or ., a symbolic link to a package directory,
	// a vendor-like directory of another module. Exactly the documented outputs
	// of the module's own packages appear; everything else is untouched.
	treeFiles := 0
	{
		tdir := newScratch(work, "tree")
		src := func(pkg string, k int) string {
			return fmt.Sprintf("//go:build cff\n\npackage %s\n\nimport (\n\t\"context\"\n\n\t\"go.uber.org/cff\"\n)\n\nfunc Run%d(ctx context.Context, n int) (s string, err error) {\n\terr = cff.Flow(ctx,\n\t\tcff.Params(n),\n\t\tcff.Results(&s),\n\t\tcff.Task(func(i int) (string, error) { return string(rune('a' + (i+%d)%%26)), nil }),\n\t)\n\treturn\n}\n", pkg, k, k)
		}
		writeFile(filepath.Join(tdir, "a", "a.go"), src("a", 1))
		writeFile(filepath.Join(tdir, "a", "sub", "deep", "d.go"), src("deep", 2))
		writeFile(filepath.Join(tdir, "b", "b.go"), src("b", 3))
		writeFile(filepath.Join(tdir, "b", "b_test.go"), strings.Replace(src("b", 4), "package b", "package b", 1))
		writeFile(filepath.Join(tdir, "a", "testdata", "t.go"), src("t", 5))
		writeFile(filepath.Join(tdir, "a", "testdata", "golden_gen.go"), "package t\n\n// a golden file that happens to be named like an output\n")
		writeFile(filepath.Join(tdir, "_skipped", "s.go"), src("skipped", 6))
		writeFile(filepath.Join(tdir, ".hidden", "h.go"), src("hidden", 7))
		writeFile(filepath.Join(tdir, "nested", "go.mod"), "module nestedmod\n\ngo 1.19\n")
		writeFile(filepath.Join(tdir, "nested", "n.go"), src("nested", 8))
		writeFile(filepath.Join(tdir, "b", "notes.go.txt"), src("b", 9))
		os.Symlink(filepath.Join(tdir, "a"), filepath.Join(tdir, "alink"))
		vc.Run(tdir, vc.Env(), "go", "list", "-tags", "cff", "./...")
		before := snapshot(tdir)
		tr := runTool(tdir, cff, "-quiet", "./...")
		after := snapshot(tdir)
		cr, ch, rm := diffSnap(before, after)
		want := map[string]bool{"a/a_gen.go": true, "a/sub/deep/d_gen.go": true, "b/b_gen.go": true, "b/b_gen_test.go": true}
		treeFiles = len(after)
		evals++
		distinct["tree-layout"] = true
		if tr.Exit != 0 {
			c.R.Add(vc.Violation{Property: "C16", Case: "tree/exit", Why: fmt.Sprintf("cff ./... over a tree with testdata, a nested module, _ and . directories and a symlinked package directory exited %d: %s", tr.Exit, vc.Tail(tr.Stderr, 600)), Obs: map[string]string{"clause": "footprint"}})
		}
		for _, p := range cr {
			if strings.HasPrefix(p, "alink/") {
				p = "a/" + strings.TrimPrefix(p, "alink/") // the link's view of a/
			}
			if !want[p] {
				c.R.Add(vc.Violation{Property: "C16", Case: "tree/" + p, Why: "cff ./... created a file outside the documented output paths of the module's own packages: " + p, Obs: map[string]string{"clause": "footprint"}})
			}
			delete(want, p)
		}
		if tr.Exit == 0 {
			for p := range want {
				c.R.Add(vc.Violation{Property: "C16", Case: "tree/" + p, Why: "cff ./... exited 0 but did not write the documented output " + p, Obs: map[string]string{"clause": "footprint"}})
			}
		}
		for _, p := range ch {
			if p != "go.mod" && p != "go.sum" {
				c.R.Add(vc.Violation{Property: "C16", Case: "tree/" + p, Why: "cff ./... modified a file that existed before: " + p, Obs: map[string]string{"clause": "footprint"}})
			}
		}
		for _, p := range rm {
			c.R.Add(vc.Violation{Property: "C16", Case: "tree/" + p, Why: "cff ./... removed a file: " + p, Obs: map[string]string{"clause": "footprint"}})
		}
	}
	// ---- (c'') -file selects files by name: a package whose file names are
	// suffixes of one another (flow.go, subflow.go, a_flow.go); selecting one
	// writes that one's output only, also with an explicit output path.
	{
		sdir := newScratch(work, "sfx")
		src := func(k int) string {
			return fmt.Sprintf("//go:build cff\n\npackage sfx\n\nimport (\n\t\"context\"\n\n\t\"go.uber.org/cff\"\n)\n\nfunc Run%d(ctx context.Context, n int) (s string, err error) {\n\terr = cff.Flow(ctx,\n\t\tcff.Params(n),\n\t\tcff.Results(&s),\n\t\tcff.Task(func(i int) (string, error) { return string(rune('a' + (i+%d)%%26)), nil }),\n\t)\n\treturn\n}\n", k, k)
		}
		names := []string{"flow.go", "subflow.go", "a_flow.go", "w.go", "flow.go.go"}
		for i, variant := range []string{"plain", "explicit-output"} {
			rel := fmt.Sprintf("v%d/sfx", i)
			for k, fn := range names {
				writeFile(filepath.Join(sdir, rel, fn), src(k))
			}
			vc.Run(sdir, vc.Env(), "go", "list", "-tags", "cff", "./...")
			before := snapshot(sdir)
			want := filepath.Join(rel, "flow_gen.go")
			args := []string{"-quiet", "-file", "flow.go", "./" + rel}
			if variant == "explicit-output" {
				want = filepath.Join(rel, "custom_out.go")
				args = []string{"-quiet", "-file", "flow.go=" + filepath.Join(sdir, want), "./" + rel}
			}
			tr := runTool(sdir, cff, args...)
			cr, ch, rm := diffSnap(before, snapshot(sdir))
			evals++
			distinct["file-name-suffixes:"+variant] = true
			if tr.Exit != 0 {
				c.R.Add(vc.Violation{Property: "C16", Case: "suffix/" + variant, Why: fmt.Sprintf("cff -file flow.go exited %d on a package with files %v: %s", tr.Exit, names, vc.Tail(tr.Stderr, 400)), Obs: map[string]string{"clause": "footprint"}})
				continue
			}
			got := false
			for _, p := range cr {
				if p == want {
					got = true
					b, _ := os.ReadFile(filepath.Join(sdir, p))
					if !strings.Contains(string(b), "func Run0(") {
						c.R.Add(vc.Violation{Property: "C16", Case: "suffix/" + variant, Why: "the output written for -file flow.go does not hold flow.go's function Run0: " + firstLines(string(b), 12), Obs: map[string]string{"clause": "footprint"}})
					}
					continue
				}
				c.R.Add(vc.Violation{Property: "C16", Case: "suffix/" + variant + "/" + p, Why: fmt.Sprintf("cff -file flow.go (%s) created %s; only %s is the documented output of the selected file (the package also has %v)", variant, p, want, names[1:]), Obs: map[string]string{"clause": "footprint"}})
			}
			if !got {
				c.R.Add(vc.Violation{Property: "C16", Case: "suffix/" + variant, Why: "cff -file flow.go exited 0 but did not write " + want, Obs: map[string]string{"clause": "footprint"}})
			}
			for _, p := range append(ch, rm...) {
				if p != "go.mod" && p != "go.sum" {
					c.R.Add(vc.Violation{Property: "C16", Case: "suffix/" + variant + "/" + p, Why: "cff -file flow.go changed or removed " + p, Obs: map[string]string{"clause": "footprint"}})
				}
			}
		}
	}
	cov := map[string]interface{}{
		"evaluations":         evals,
		"distinct_nontrivial": len(distinct),
		"rule": fmt.Sprintf("Engine T. (b) constraints: every expression over the tags {cff,a,b} up to nesting depth %d (exhaustive for that depth) plus a seeded sample of deeper ones, as //go:build lines, as // +build lines (via PlusBuildLines and hand-made comma/space/multi-line forms) and both together, each on a file with one directive; "+
			"cff run under the four tag sets containing cff; oracle: for all 8 assignments out(sigma) = src(sigma with cff flipped), via go/build/constraint. (a) preservation: Engine G programs and static multi-directive files; source and output ASTs compared structurally after masking top-level directive calls / generated closures; imports only added. "+
			"(c) footprint: SHA-256 snapshot of the module before/after; created files must be exactly the documented outputs of the selected inputs (random -file and -file=IN=OUT selections); nothing else changes; then every invocation is repeated with the outputs in place and the tree must not change at all; one invocation ./... over a tree with testdata, a nested module, _ and . directories, a symlinked package directory and an in-package test file. distinct = distinct constraint headers + distinct files compared", exhaustiveDepth),
		"samples":                     samples,
		"constraint_files":            consChecked,
		"preservation_files":          presChecked,
		"files_created":               len(created),
		"files_in_tree_layout_module": treeFiles,
		"files_compared_after_rerun_with_outputs_in_place": rerun,
		"exhaustive":                  false,
		"exhaustive_constraint_depth": exhaustiveDepth,
	}
	writeEvidence(c, cov, []string{"immediately-invoked func() (err error) literals in the output are taken to be generated closures (inputs never contain that shape)"})
}

func headerOf(src string) string {
	var out []string
	for _, l := range strings.Split(src, "\n") {
		t := strings.TrimSpace(l)
		if strings.HasPrefix(t, "package ") {
			break
		}
		if strings.HasPrefix(t, "//go:build") || strings.HasPrefix(t, "// +build") {
			out = append(out, t)
		}
	}
	return strings.Join(out, " ; ")
}

func init() {
	checks["C16"] = checkC16
}

// rerunRound repeats every invocation of the footprint phase over the tree as
// it is now and compares the tree afterwards with the tree after the first round.
func rerunRound(c *ctx, cff, pdir string, pkgs []*toolPkg, argsOf func(i int) []string, after map[string]string, round int, compared *int) {
	what := [2]string{"with its earlier output in place", "with a longer, stale file at every output path"}[round]
	parallel(len(pkgs), func(i int) {
		tr := runTool(pdir, cff, argsOf(i)...)
		if tr.Exit != pkgs[i].run.Exit {
			c.R.Add(vc.Violation{Property: "C16", Case: "rerun/" + pkgs[i].Rel, Why: fmt.Sprintf("cff exited %d when run over the package again %s; the first run exited %d: %s", tr.Exit, what, pkgs[i].run.Exit, vc.Tail(tr.Stderr, 600)), Obs: map[string]string{"clause": "footprint"}})
		}
	})
	again := snapshot(pdir)
	cr, ch, rm := diffSnap(after, again)
	*compared += len(after)
	for _, p := range ch {
		if p == "go.mod" || p == "go.sum" {
			continue
		}
		c.R.Add(vc.Violation{Property: "C16", Case: "rerun/" + p, Why: "running cff again " + what + " left a file that differs from what the first run wrote: " + p, Obs: map[string]string{"clause": "footprint"}})
	}
	for _, p := range cr {
		c.R.Add(vc.Violation{Property: "C16", Case: "rerun/" + p, Why: "running cff again " + what + " created another file: " + p, Obs: map[string]string{"clause": "footprint"}})
	}
	for _, p := range rm {
		c.R.Add(vc.Violation{Property: "C16", Case: "rerun/" + p, Why: "running cff again " + what + " removed a file: " + p, Obs: map[string]string{"clause": "footprint"}})
	}
}
