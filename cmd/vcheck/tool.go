package main

import (
	"bytes"
	"crypto/sha256"
	"encoding/hex"
	"fmt"
	"go/ast"
	"go/parser"
	"go/token"
	"os"
	"os/exec"
	"path/filepath"
	"regexp"
	"sort"
	"strconv"
	"strings"
	"sync"

	"verif/vc"
	"vg/prog"
)

// ---------------------------------------------------------------------------
// Engine T: the cff binary as the system under observation.

type toolRun struct {
	Exit   int
	Stderr string
	Stdout string
}

func runTool(dir string, bin string, args ...string) toolRun {
	cmd := exec.Command(bin, args...)
	cmd.Dir = dir
	cmd.Env = vc.Env()
	var so, se bytes.Buffer
	cmd.Stdout, cmd.Stderr = &so, &se
	err := cmd.Run()
	r := toolRun{Stderr: se.String(), Stdout: so.String()}
	if err != nil {
		if ee, ok := err.(*exec.ExitError); ok {
			r.Exit = ee.ExitCode()
		} else {
			r.Exit = -1
			r.Stderr += err.Error()
		}
	}
	return r
}

var (
	posDiagRe = regexp.MustCompile(`[^\s:]+\.go:\d+:\d+`)
	crashRe   = regexp.MustCompile(`(?m)^(panic:|goroutine \d+ \[|fatal error:)`)
)

func crashed(r toolRun) bool {
	return r.Exit == 2 && crashRe.MatchString(r.Stderr) || crashRe.MatchString(r.Stderr)
}

// scratch module for tool inputs
func newScratch(work, name string) string {
	dir := filepath.Join(work, name)
	must(os.MkdirAll(dir, 0o755))
	must(os.WriteFile(filepath.Join(dir, "go.mod"), []byte(scratchMod), 0o644))
	sum, _ := os.ReadFile(filepath.Join(vc.RepoDir, "go.sum"))
	must(os.WriteFile(filepath.Join(dir, "go.sum"), sum, 0o644))
	return dir
}

func writeFile(path, content string) {
	must(os.MkdirAll(filepath.Dir(path), 0o755))
	must(os.WriteFile(path, []byte(content), 0o644))
}

// snapshot: path -> sha256 of every regular file under dir.
func snapshot(dir string) map[string]string {
	m := map[string]string{}
	filepath.Walk(dir, func(p string, info os.FileInfo, err error) error {
		if err != nil || info.IsDir() {
			return nil
		}
		b, err := os.ReadFile(p)
		if err != nil {
			return nil
		}
		h := sha256.Sum256(b)
		rel, _ := filepath.Rel(dir, p)
		m[rel] = hex.EncodeToString(h[:])
		return nil
	})
	return m
}

func diffSnap(a, b map[string]string) (created, changed, removed []string) {
	for p, h := range b {
		if old, ok := a[p]; !ok {
			created = append(created, p)
		} else if old != h {
			changed = append(changed, p)
		}
	}
	for p := range a {
		if _, ok := b[p]; !ok {
			removed = append(removed, p)
		}
	}
	sort.Strings(created)
	sort.Strings(changed)
	sort.Strings(removed)
	return
}

// directiveSet reads the code-generation directive names from /repo.
func directiveSet() map[string]bool {
	b, err := os.ReadFile(filepath.Join(vc.RepoDir, "internal", "directives.go"))
	set := map[string]bool{}
	if err == nil {
		re := regexp.MustCompile(`"([A-Z][A-Za-z]+)":\s*\{\}`)
		for _, m := range re.FindAllStringSubmatch(string(b), -1) {
			set[m[1]] = true
		}
	}
	if len(set) < 10 {
		for _, n := range []string{"Params", "Results", "WithEmitter", "Task", "InstrumentFlow", "Concurrency", "ContinueOnError", "Flow", "FallbackWith", "Predicate", "Instrument", "Invoke", "Parallel", "InstrumentParallel", "Tasks", "Slice", "SliceEnd", "Map", "MapEnd"} {
			set[n] = true
		}
	}
	return set
}

// residualDirectives lists calls into the cff package's directive set that
// remain in a generated file.
func residualDirectives(path string, dirs map[string]bool) ([]string, error) {
	fset := token.NewFileSet()
	f, err := parser.ParseFile(fset, path, nil, parser.SkipObjectResolution)
	if err != nil {
		return nil, err
	}
	names := map[string]bool{}
	dot := false
	for _, im := range f.Imports {
		p, _ := strconv.Unquote(im.Path.Value)
		if p != "go.uber.org/cff" {
			continue
		}
		switch {
		case im.Name == nil:
			names["cff"] = true
		case im.Name.Name == ".":
			dot = true
		case im.Name.Name != "_":
			names[im.Name.Name] = true
		}
	}
	var out []string
	ast.Inspect(f, func(n ast.Node) bool {
		ce, ok := n.(*ast.CallExpr)
		if !ok {
			return true
		}
		fun := ce.Fun
		for {
			if p, ok := fun.(*ast.ParenExpr); ok {
				fun = p.X
				continue
			}
			break
		}
		switch x := fun.(type) {
		case *ast.SelectorExpr:
			if id, ok := x.X.(*ast.Ident); ok && names[id.Name] && dirs[x.Sel.Name] {
				out = append(out, fmt.Sprintf("%s: %s.%s(...)", fset.Position(ce.Pos()), id.Name, x.Sel.Name))
			}
		case *ast.Ident:
			if dot && dirs[x.Name] {
				out = append(out, fmt.Sprintf("%s: %s(...) (dot import)", fset.Position(ce.Pos()), x.Name))
			}
		}
		return true
	})
	return out, nil
}

// parallel runs f(i) for i in [0,n) on 16 goroutines.
func parallel(n int, f func(i int)) {
	var wg sync.WaitGroup
	sem := make(chan struct{}, 16)
	for i := 0; i < n; i++ {
		wg.Add(1)
		sem <- struct{}{}
		go func(i int) {
			defer wg.Done()
			defer func() { <-sem }()
			f(i)
		}(i)
	}
	wg.Wait()
}

// ---------------------------------------------------------------------------
// C13

type toolPkg struct {
	Rel      string // package directory relative to the module
	Feature  string
	Kind     string // "corpus", "static", "hazard"
	Files    []string
	Auto     bool
	run      toolRun
	inputBad bool
}

func checkC13(c *ctx) {
	work := vc.WorkDir("c13")
	cff := vc.BuildCff(work)
	dirs := directiveSet()
	o := prog.DefaultOpts()
	o.PredPct, o.FallbackPct, o.InstrPct = 30, 30, 40
	type cfg struct {
		mode string
		auto bool
	}
	// the fifth configuration processes many packages per invocation (./g/..., ./s/...)
	cfgs := []cfg{{"base", false}, {"source-map", false}, {"base", true}, {"source-map", true}, {"base", false}}
	evals, nontrivial := 0, 0
	distinct := map[string]bool{}
	var samples []interface{}
	feats := map[string]int{}
	discarded := 0
	firstBadInput := ""
	hazardOutcome := map[string]string{}
	outcomes := map[string]int{}
	staleRewritten := 0
	for ci, cf := range cfgs {
		if c.R.NumViolations() >= 8 {
			break
		}
		dir := newScratch(work, fmt.Sprintf("m%d", ci))
		var pkgs []*toolPkg
		nf, np, ns := c.pick(40, 500), c.pick(40, 500), c.pick(25, 300)
		if ci > 0 {
			nf, np, ns = nf/2, np/2, ns/2
		}
		for _, p := range genPrograms(c.Seed+uint64(ci)*7919, "C13", nf, np, o, 1) {
			p.AutoInstrument = false
			rel := "g/" + p.Name
			writeProgFiles(dir, rel, p)
			pkgs = append(pkgs, &toolPkg{Rel: rel, Kind: "corpus", Feature: strings.Join(p.Features, ","), Files: []string{"p.go"}})
		}
		for i := 0; i < ns; i++ {
			r := prog.NewRand(c.Seed, hashS("C13static"), uint64(ci), uint64(i))
			name := fmt.Sprintf("s%04d", i)
			rel := "s/" + name
			nfiles := 1 + r.Intn(3)
			tp := &toolPkg{Rel: rel, Kind: "static"}
			for k := 0; k < nfiles; k++ {
				fn := fmt.Sprintf("f%d.go", k)
				if r.Chance(1, 5) {
					fn = fmt.Sprintf("f%d_test.go", k)
				}
				sf := genStaticFile(r, name, fn, k, "")
				writeFile(filepath.Join(dir, rel, fn), sf.Src)
				tp.Files = append(tp.Files, fn)
				tp.Feature = strings.Join(sf.Features, ",")
			}
			pkgs = append(pkgs, tp)
		}
		for hi, h := range hazards() {
			name := fmt.Sprintf("h%03d", hi)
			rel := "h/" + name
			for fn, content := range h.Files {
				content = strings.ReplaceAll(content, "scratch/HZ/", "scratch/"+rel+"/")
				content = strings.ReplaceAll(content, "PKGNAME", name)
				writeFile(filepath.Join(dir, rel, fn), content)
			}
			pkgs = append(pkgs, &toolPkg{Rel: rel, Kind: "hazard", Feature: h.Feature, Files: []string{"p.go"}})
		}
		// Inputs must type-check under the cff tag; the rest is the generator's fault.
		vetOut, _ := vc.Run(dir, vc.Env(), "go", "vet", "-framepointer", "-tags", "cff", "./...")
		badInput := map[string]bool{}
		for _, m := range regexp.MustCompile(`(?m)^# scratch/(\S+)`).FindAllStringSubmatch(vetOut, -1) {
			badInput[strings.TrimSuffix(strings.TrimSuffix(m[1], "_test"), " [scratch/"+m[1]+".test]")] = true
		}
		for _, m := range regexp.MustCompile(`(?m)^((?:g|s|h)/[a-z0-9]+)/\S+\.go:\d+`).FindAllStringSubmatch(vetOut, -1) {
			badInput[m[1]] = true
		}
		if len(badInput) > 0 && firstBadInput == "" {
			firstBadInput = firstLines(vetOut, 4)
		}
		together := ci == 4
		if together {
			// hazards have their own expected failures: one process each, as before
			group := map[string]toolRun{}
			for _, sub := range []string{"g", "s"} {
				group[sub] = runTool(dir, cff, "-genmode", cf.mode, "./"+sub+"/...")
			}
			for _, p := range pkgs {
				if p.Kind != "hazard" && !badInput[p.Rel] {
					p.run = group[p.Rel[:1]]
				}
			}
		}
		parallel(len(pkgs), func(i int) {
			p := pkgs[i]
			if badInput[p.Rel] {
				p.inputBad = true
				return
			}
			if together && p.Kind != "hazard" {
				return
			}
			args := []string{"-genmode", cf.mode}
			if cf.auto {
				args = append(args, "-auto-instrument")
			}
			args = append(args, "./"+p.Rel)
			p.run = runTool(dir, cff, args...)
		})
		// Configurations 1 and 2 (source-map; base with -auto-instrument): the
		// same invocations once more over a tree in which every output path
		// already holds a longer file (the output of "an earlier version of the
		// source"). What is type-checked below is what the second round left.
		if ci == 1 || ci == 2 {
			filepath.Walk(dir, func(path string, info os.FileInfo, err error) error {
				if err == nil && !info.IsDir() && (strings.HasSuffix(path, "_gen.go") || strings.HasSuffix(path, "_gen_test.go")) {
					if f, err := os.OpenFile(path, os.O_APPEND|os.O_WRONLY, 0); err == nil {
						f.WriteString("\n// tail of an earlier, longer output\nfunc staleTail() { staleTail() }\n" + strings.Repeat("// padding padding padding padding\n", 40))
						f.Close()
						staleRewritten++
					}
				}
				return nil
			})
			parallel(len(pkgs), func(i int) {
				p := pkgs[i]
				if p.inputBad || (together && p.Kind != "hazard") {
					return
				}
				args := []string{"-genmode", cf.mode}
				if cf.auto {
					args = append(args, "-auto-instrument")
				}
				args = append(args, "./"+p.Rel)
				if tr := runTool(dir, cff, args...); tr.Exit != p.run.Exit {
					p.run = tr // judged below like a first run
				}
			})
		}
		// Type-check every output without the cff tag, in one go.
		buildOut, _ := vc.Run(dir, vc.Env(), "go", "vet", "-framepointer", "./g/...", "./s/...", "./h/...")
		compileErr := map[string]string{}
		for _, l := range strings.Split(buildOut, "\n") {
			if m := regexp.MustCompile(`^(?:vet: )?((?:g|s|h)/[a-z0-9]+)/(\S+\.go:\d+(?::\d+)?: .*)$`).FindStringSubmatch(strings.TrimPrefix(l, "./")); m != nil {
				if compileErr[m[1]] == "" {
					compileErr[m[1]] = m[2]
				}
			}
		}
		for _, p := range pkgs {
			if p.inputBad {
				discarded++
				continue
			}
			evals++
			caseName := fmt.Sprintf("%s/%s auto=%v %s", cf.mode, p.Rel, cf.auto, p.Feature)
			key := p.Kind + "|" + p.Feature + "|" + cf.mode
			if !distinct[key] {
				distinct[key] = true
			}
			nontrivial++
			feats[p.Kind]++
			obs := map[string]string{"feature": p.Feature, "kind": p.Kind, "mode": cf.mode}
			wit := func() map[string]interface{} {
				w := map[string]interface{}{"engine": "T", "seed": c.Seed, "package": p.Rel, "mode": cf.mode, "auto_instrument": cf.auto, "exit": p.run.Exit, "stderr": vc.Tail(p.run.Stderr, 3000)}
				for _, fn := range p.Files {
					b, _ := os.ReadFile(filepath.Join(dir, p.Rel, fn))
					w["input:"+fn] = string(b)
					g, _ := os.ReadFile(filepath.Join(dir, p.Rel, genName(fn)))
					if len(g) > 0 {
						w["output:"+genName(fn)] = string(g)
					}
				}
				return w
			}
			if crashed(p.run) {
				outcomes["crash"]++
				obs["stderr"] = firstLines(crashHead(p.run.Stderr), 2)
				c.R.Add(vc.Violation{Property: "C13", Case: caseName, Why: "the cff tool died with a Go panic on a type-correct input: " + firstLines(crashHead(p.run.Stderr), 3), Obs: obs, Witness: wit()})
				continue
			}
			if p.Kind == "hazard" && ci == 0 {
				switch {
				case p.run.Exit != 0:
					hazardOutcome[p.Feature] = "rejected with a diagnostic"
				case compileErr[p.Rel] != "":
					hazardOutcome[p.Feature] = "accepted, output does not compile"
				default:
					hazardOutcome[p.Feature] = "accepted"
				}
			}
			if p.run.Exit != 0 {
				outcomes["diagnostic"]++
				if !posDiagRe.MatchString(p.run.Stderr) {
					obs["stderr"] = firstLines(p.run.Stderr, 2)
					c.R.Add(vc.Violation{Property: "C13", Case: caseName, Why: "cff exited with status " + strconv.Itoa(p.run.Exit) + " without a positioned diagnostic: " + firstLines(p.run.Stderr, 3), Obs: obs, Witness: wit()})
				}
				continue
			}
			outcomes["success"]++
			bad := false
			for _, fn := range p.Files {
				gp := filepath.Join(dir, p.Rel, genName(fn))
				if _, err := os.Stat(gp); err != nil {
					if p.Kind != "hazard" {
						// every file of the corpus and static packages holds a directive
						obs["compile_err"] = "no output written"
						c.R.Add(vc.Violation{Property: "C13", Case: caseName, Why: "cff exited 0 but wrote no output for " + fn + ", which contains directives: without the cff tag the package lacks that file's declarations (it cannot be built)", Obs: obs, Witness: wit()})
						bad = true
						break
					}
					continue // a file without directives has no output
				}
				res, err := residualDirectives(gp, dirs)
				if err != nil {
					obs["compile_err"] = err.Error()
					c.R.Add(vc.Violation{Property: "C13", Case: caseName, Why: "cff exited 0 but the file it wrote does not parse: " + err.Error(), Obs: obs, Witness: wit()})
					bad = true
					break
				}
				if len(res) > 0 {
					obs["residual"] = res[0]
					c.R.Add(vc.Violation{Property: "C13", Case: caseName, Why: fmt.Sprintf("cff exited 0 but %d call(s) to code-generation directives remain in its output (they panic at run time): %s", len(res), res[0]), Obs: obs, Witness: wit()})
					bad = true
					break
				}
			}
			if bad {
				continue
			}
			if ce := compileErr[p.Rel]; ce != "" {
				obs["compile_err"] = ce
				c.R.Add(vc.Violation{Property: "C13", Case: caseName, Why: "cff exited 0 but the package does not type-check without the cff tag: " + ce, Obs: obs, Witness: wit()})
			}
		}
		if len(samples) < 2 && len(pkgs) > 0 {
			b, _ := os.ReadFile(filepath.Join(dir, pkgs[len(pkgs)/2].Rel, pkgs[len(pkgs)/2].Files[0]))
			samples = append(samples, map[string]interface{}{"mode": cf.mode, "auto_instrument": cf.auto, "package": pkgs[len(pkgs)/2].Rel, "input": string(b)})
		}
	}
	if discarded > 0 {
		// An input that does not type-check under the cff tag is this
		// framework's fault, never cff's; it must not shrink the workload silently.
		c.R.Inconclusive(fmt.Sprintf("%d generated input packages do not type-check under the cff tag and were not given to cff (input generator defect): %s", discarded, firstBadInput))
	}
	cov := map[string]interface{}{
		"evaluations":         evals,
		"distinct_nontrivial": len(distinct),
		"rule": "Engine T: input packages = Engine G corpus programs (all spellings and value-type kinds), static multi-directive files with arbitrary surrounding code (also *_test.go), and hazard templates (aliased/colliding imports of time, context, cff, runtime/debug; user identifiers named like generated ones; identifiers shadowing packages the generated code uses; types from unimported packages; unexported foreign types; nested directives; parenthesised and non-constant option arguments; unsupported signatures), " +
			"each run through the cff binary built from the working tree in base/source-map x with/without -auto-instrument, one process per package, and once more with many packages per invocation (./g/..., ./s/...). Oracle: no Go panic; non-zero exit needs a positioned diagnostic; exit 0 needs every output to parse, the package to type-check without the cff tag (go vet), and no call into the directive set (read from /repo/internal/directives.go) left in the output. distinct = (kind, feature set, mode); every case is non-trivial (a directive is present)",
		"samples":                           samples,
		"packages_by_kind":                  feats,
		"outcomes":                          outcomes,
		"inputs_discarded_not_type_correct": discarded,
		"hazard_outcomes_base_mode":         hazardOutcome,
		"outputs_regenerated_over_a_longer_stale_file": staleRewritten,
	}
	writeEvidence(c, cov, []string{"inputs that do not type-check under the cff tag are generator bugs and are discarded (counted)", "residual-directive scan resolves the cff package through the file's import names"})
}

func genName(fn string) string {
	if strings.HasSuffix(fn, "_test.go") {
		return strings.TrimSuffix(fn, "_test.go") + "_gen_test.go"
	}
	return strings.TrimSuffix(fn, ".go") + "_gen.go"
}

func init() {
	checks["C13"] = checkC13
}
