package main

import (
	"fmt"
	"go/ast"
	"os"
	"path/filepath"
	"strings"

	"verif/vc"
	"vg/prog"
)

// C20: (a) source-map output = base output up to comments and line
// directives; (b) modifier output behaves like base output.
func checkC20(c *ctx) {
	work := vc.WorkDir("c20")
	cff := vc.BuildCff(work)
	o := prog.DefaultOpts()
	o.InstrPct, o.PredPct, o.FallbackPct = 40, 30, 30
	evals := 0
	distinct := map[string]bool{}
	var samples []interface{}

	// ---- (a) -----------------------------------------------------------------
	dirs := map[string]string{}
	var pkgs []*toolPkg
	for _, mode := range []string{"base", "source-map"} {
		dir := newScratch(work, "a-"+mode)
		dirs[mode] = dir
		pkgs = toolCorpus(c, dir, "C20", c.pick(50, 500), c.pick(50, 500), c.pick(40, 400), o)
		for _, sub := range []string{"g", "s"} {
			tr := runTool(dir, cff, "-genmode", mode, "-quiet", "./"+sub+"/...")
			if crashed(tr) {
				c.R.Add(vc.Violation{Property: "C20", Case: mode + "/" + sub, Why: "cff crashed: " + firstLines(crashHead(tr.Stderr), 3)})
			}
		}
	}
	for _, p := range pkgs {
		for _, fn := range p.Files {
			rel := filepath.Join(p.Rel, genName(fn))
			bp, sp := filepath.Join(dirs["base"], rel), filepath.Join(dirs["source-map"], rel)
			_, e1 := os.Stat(bp)
			_, e2 := os.Stat(sp)
			if e1 != nil && e2 != nil {
				continue
			}
			evals++
			distinct["a:"+rel] = true
			if (e1 == nil) != (e2 == nil) {
				c.R.Add(vc.Violation{Property: "C20", Case: rel, Why: fmt.Sprintf("one mode wrote an output for %s and the other did not (base: %v, source-map: %v)", rel, e1 == nil, e2 == nil)})
				continue
			}
			fb, err1 := parseNoComments(bp)
			fs, err2 := parseNoComments(sp)
			if err1 != nil || err2 != nil {
				c.R.Add(vc.Violation{Property: "C20", Case: rel, Why: fmt.Sprintf("an output does not parse (base: %v, source-map: %v)", err1, err2)})
				continue
			}
			if ok, where := astEqual([]ast.Decl(fb.Decls), []ast.Decl(fs.Decls), "decls"); !ok || fb.Name.Name != fs.Name.Name {
				b1, _ := os.ReadFile(bp)
				b2, _ := os.ReadFile(sp)
				c.R.Add(vc.Violation{Property: "C20", Case: rel, Why: "source-map output differs from base output in code, not only in comments/line directives, at " + where,
					Witness: map[string]interface{}{"engine": "T", "base": string(b1), "source_map": string(b2)}})
			}
			if len(samples) < 1 {
				b2, _ := os.ReadFile(sp)
				samples = append(samples, map[string]interface{}{"file": rel, "source_map_output_head": vc.Tail(string(b2[:min(len(b2), 600)]), 600)})
			}
		}
	}

	// ---- (b) -----------------------------------------------------------------
	mo := prog.DefaultOpts()
	mo.PredPct, mo.FallbackPct, mo.InstrPct, mo.WrapPct, mo.GenericPct = 0, 0, 0, 25, 0
	mo.NoInvoke = true
	mo.Spellings = []int{prog.SpLit, prog.SpLit, prog.SpTop, prog.SpMethod, prog.SpVar}
	var gcov map[string]interface{}
	if c.R.NumViolations() < 6 {
		c.AlsoProps = []string{"C01", "C02", "C03", "C04", "C07", "C09", "C15"} // (the modes must agree on when and in which order the arguments are evaluated, too)
		mo.Wide = c.pick(8, 40) // flows of independent functions, held until as many run at once as the limit allows
		progs := genPrograms(c.Seed, "C20m", c.pick(70, 800), 0, mo, 1)
		for _, p := range progs {
			p.InMethod = false
		}
		mwork := vc.WorkDir("c20m")
		co := writeCorpus(mwork, progs)
		co.generate(cff, "modifier")
		co.buildRunner(false)
		for name, why := range co.Dropped {
			c.R.Add(vc.Violation{Property: "C20", Case: "modifier/" + name, Why: "modifier mode: " + why, Obs: map[string]string{"clause": "modifier-compiles"},
				Witness: map[string]interface{}{"engine": "T", "source": readProgSource(co, name), "generated": readProgGen(co, name), "cff_output": grepLines(co.CffOut, name, 5)}})
		}
		am := runGen(c, co, "ok,fault,panic,wide", c.pick(5, 10), false)
		// the same programs in base mode, same scenarios, same oracle
		bwork := vc.WorkDir("c20b")
		cb := writeCorpus(bwork, progs)
		cb.generate(cff, "base")
		cb.buildRunner(false)
		ab := runGen(c, cb, "ok,fault,panic,wide", c.pick(5, 10), false)
		gcov = am.coverage("(b) flows restricted to Params, Results, Concurrency and plain Tasks (no predicates, fallbacks, Invoke, instrumentation) generated in modifier mode and in base mode, both executed under identical scenarios (ok / error / panic per task) and judged by the same reference interpreter: returned error identity, Results tokens, stub-call multiset")
		gcov["base_mode_evaluations"] = ab.Evaluations
		gcov["base_mode_programs"] = ab.Programs
	}
	// ---- (b') modifier mode names its generated functions after file, line and
	// column: files whose names are digit-extensions of each other, with
	// directives on lines that make the concatenation ambiguous (stage.go:120 and
	// stage1.go:20), must still get distinct names.
	if c.R.NumViolations() < 6 && c.RS == nil {
		ldir := newScratch(work, "layout")
		mkFile := func(fn string, line int, k int) string {
			var b strings.Builder
			b.WriteString("//go:build cff\n\npackage pipeline\n\nimport (\n\t\"context\"\n\n\t\"go.uber.org/cff\"\n)\n\n")
			fmt.Fprintf(&b, "func Stage%d(ctx context.Context, n int) (s string, err error) {\n", k)
			cur := strings.Count(b.String(), "\n") + 1
			for ; cur < line; cur++ {
				b.WriteString("\t// padding\n")
			}
			fmt.Fprintf(&b, "\terr = cff.Flow(ctx,\n\t\tcff.Params(n),\n\t\tcff.Results(&s),\n\t\tcff.Concurrency(2),\n\t\tcff.Task(func(i int) (string, error) { return string(rune('a' + (i+%d)%%26)), nil }),\n\t)\n\treturn\n}\n", k)
			return b.String()
		}
		layouts := [][2]struct {
			fn   string
			line int
		}{
			{{"stage.go", 120}, {"stage1.go", 20}},
			{{"flow.go", 1234}, {"flow12.go", 34}},
			{{"a.go", 215}, {"a2.go", 15}},
		}
		for li, l := range layouts {
			for mi, mode := range []string{"modifier", "base"} {
				rel := fmt.Sprintf("l%d%s/pipeline", li, mode)
				writeFile(filepath.Join(ldir, rel, l[0].fn), mkFile(l[0].fn, l[0].line, 1))
				writeFile(filepath.Join(ldir, rel, l[1].fn), mkFile(l[1].fn, l[1].line, 2))
				tr := runTool(ldir, cff, "-genmode", mode, "-quiet", "./"+rel)
				evals++
				distinct[fmt.Sprintf("layout:%d:%s", li, mode)] = true
				vet, verr := vc.Run(ldir, vc.Env(), "go", "vet", "-framepointer", "./"+rel)
				if tr.Exit != 0 || verr != nil {
					_ = mi
					c.R.Add(vc.Violation{Property: "C20", Case: fmt.Sprintf("layout/%s+%s/%s", l[0].fn, l[1].fn, mode),
						Why:     fmt.Sprintf("a package with directives at %s:%d and %s:%d: %s mode output does not compile (cff exit %d): %s %s", l[0].fn, l[0].line, l[1].fn, l[1].line, mode, tr.Exit, firstLines(tr.Stderr, 2), firstLines(vet, 3)),
						Witness: map[string]interface{}{"engine": "T", "mode": mode, "files": []string{l[0].fn, l[1].fn}, "stderr": tr.Stderr, "vet": vet}})
				}
			}
		}
	}
	// ---- (b'') small packages whose layout or surroundings have nothing to do
	// with the flow itself: every mode must accept them and write code that
	// compiles (found F22-F25: each of these was accepted in base mode and
	// failed in another mode).
	if c.R.NumViolations() < 6 && c.RS == nil {
		sdir := newScratch(work, "surround")
		body := func(pkg, fn, extra string) string {
			return "//go:build cff\n\npackage " + pkg + "\n\nimport (\n\t\"context\"\n\n\t\"go.uber.org/cff\"\n)\n\n" + extra +
				"func " + fn + "(ctx context.Context, n int) (s string, err error) {\n\terr = cff.Flow(ctx,\n\t\tcff.Params(n),\n\t\tcff.Results(&s),\n\t\tcff.Concurrency(2),\n\t\tcff.Task(func(i int) (string, error) { return string(rune('a' + i%26)), nil }),\n\t)\n\treturn\n}\n"
		}
		type spkg struct {
			name  string
			files map[string]string
		}
		lineEnd := strings.Replace(body("lineend", "Run", ""), "\t)\n\treturn", "//line tmpl.go:1\n\t)\n\treturn", 1)
		parEnd := "//go:build cff\n\npackage parend\n\nimport (\n\t\"context\"\n\n\t\"go.uber.org/cff\"\n)\n\nfunc Run(ctx context.Context, n int) error {\n\treturn cff.Parallel(ctx,\n\t\tcff.Task(func() error { _ = n; return nil }),\n//line tmpl.go:1\n\t)\n}\n"
		spkgs := []spkg{
			{"nonewline", map[string]string{"p.go": strings.TrimSuffix(body("nonewline", "Run", ""), "\n")}},
			{"pkgnames", map[string]string{"p.go": body("pkgnames", "Run", "var debug = 3\n\nvar _ = debug\n\nfunc time() int { return 1 }\n\nvar _ = time\n\n")}},
			{"underscore", map[string]string{"a_b.go": body("underscore", "RunA", ""), "ab.go": body("underscore", "RunB", "")}},
			{"oddnames", map[string]string{"my-flow.v2.go": body("oddnames", "Run", "")}},
			{"lineend", map[string]string{"p.go": lineEnd}},
			{"crlf", map[string]string{"p.go": strings.ReplaceAll("//go:build cff\n\npackage crlf\n\nimport (\n\t\"context\"\n\n\t\"go.uber.org/cff\"\n)\n\nfunc Run(ctx context.Context, n int) (k int64, err error) {\n\terr = cff.Flow(ctx,\n\t\tcff.Params(n, `two\nlines`),\n\t\tcff.Results(&k),\n\t\tcff.Task(func(i int, t string) (int64, error) { return int64(len(t) + i), nil }),\n\t)\n\treturn\n}\n", "\n", "\r\n")}},
			{"parend", map[string]string{"p.go": parEnd}},
		}
		for _, sp := range spkgs {
			for _, mode := range []string{"base", "source-map", "modifier"} {
				if mode == "modifier" && sp.name == "parend" {
					continue // modifier mode has no cff.Parallel
				}
				rel := mode + "/" + sp.name
				for fn, content := range sp.files {
					writeFile(filepath.Join(sdir, rel, fn), content)
				}
				tr := runTool(sdir, cff, "-genmode", mode, "-quiet", "./"+rel)
				vet, verr := vc.Run(sdir, vc.Env(), "go", "vet", "-framepointer", "./"+rel)
				evals++
				distinct["surround:"+rel] = true
				if tr.Exit != 0 || verr != nil || crashed(tr) {
					c.R.Add(vc.Violation{Property: "C20", Case: "surround/" + rel,
						Why:     fmt.Sprintf("a well-formed flow in a package with an unusual surrounding (%s): %s mode does not produce code that compiles (cff exit %d): %s %s", sp.name, mode, tr.Exit, firstLines(tr.Stderr, 2), firstLines(vet, 3)),
						Obs:     map[string]string{"clause": "surround:" + sp.name},
						Witness: map[string]interface{}{"engine": "T", "mode": mode, "files": sp.files, "stderr": tr.Stderr, "vet": vet}})
				}
			}
		}
	}
	acov := map[string]interface{}{
		"evaluations":         evals,
		"distinct_nontrivial": len(distinct),
		"rule":                "Engine T (a): every accepted file of the tool corpus (Engine G programs, static multi-directive files) generated in base and in source-map mode into two identical module copies; outputs parsed without comments and compared structurally (reflection walk over go/ast, positions ignored): all declarations must be identical. distinct = files compared",
		"samples":             samples,
	}
	parts := map[string]map[string]interface{}{"T": acov}
	if gcov != nil {
		parts["G"] = gcov
	}
	cov := mergeCov(parts)
	_ = strings.Join
	writeEvidence(c, cov, []string{"(b) agreement of modifier and base output is established through agreement of each with the same reference under the same scenarios"})
}

func init() {
	checks["C20"] = checkC20
}
