package main

const ruleS = "Engine S: scenario = (family, index) under VERIF_SEED: worker limit N in {1,2,3,4,5,8,16,64,default}, fail-fast or ContinueOnError, " +
	"random DAG (chains, diamonds, fan-in up to 8, duplicate deps; family fanin: one job with more than 65536 unfinished dependencies), per-job behaviour {ok,error,Goexit,cancel}, job errors of several kinds (plain, with a permissive Is method, unwrapping to a context error), delays, enqueue pacing " +
	"(immediate / after yields / after a dependency ended / after a failure), concurrent enqueuers, cancellation plan, optional 1ns state emitter, " +
	"seeded perturbation at the verif hook points (family cancelgot: workers held between receiving a job and looking at its context until cancel() has returned; family emitgx: the state emitter kills the loop goroutine with runtime.Goexit); run against the scheduler package built from /repo's working tree. " +
	"distinct = distinct scenario encodings; non-trivial for this property: "

var assumeS = []string{
	"job bodies are supplied by the harness; a panic inside Job.Run is not a scheduler-level fault (generated code recovers it)",
	"interleavings are sampled (OS scheduler + seeded perturbation at hook points), not enumerated",
	"a stuck verdict needs every goroutine of the process blocked in the same place in three dumps while no harness event happens",
}

func schedC12(c *ctx) map[string]interface{} {
	// The race detector generalises each observed execution by happens-before;
	// reports vary from run to run, so the workload is large and repeated by the thorough tier.
	plan := []famCount{{"mix", c.scale(300)}, {"failfast", c.scale(150)}, {"coe", c.scale(150)}, {"cancel", c.scale(150)}, {"drain", c.scale(60)}, {"prompt", c.scale(40)}}
	a := runSched(c, plan, true)
	cov := a.coverage("Engine S under the Go race detector (-race -tags verif), quiet mode: job bodies share no recorder, each writes one plain slot and reads the plain slots of its dependencies, so the only synchronisation between producer and consumer is the scheduler's; " +
		"concurrent Enqueue from up to 5 goroutines; early returns with jobs still running; hook perturbation with per-thread randomness. Any WARNING: DATA RACE block is a violation (deduplicated by stack pair). " +
		"non-trivial: scenario has at least two jobs or a dependency edge")
	cov["race_reports"] = a.RaceReports
	return cov
}

func schedC01(c *ctx) map[string]interface{} {
	a := runSched(c, []famCount{{"mix", c.scale(2000)}, {"coe", c.scale(600)}, {"failfast", c.scale(600)}, {"drain", c.scale(200)}, {"fanin", c.pick(4, 60)}}, false)
	return a.coverage(ruleS + "some started job has >= 2 distinct dependencies, or the loop saw an enqueue whose dependency had already finished")
}

func schedC03(c *ctx) map[string]interface{} {
	a := runSched(c, []famCount{{"wide", c.scale(96)}, {"barrier", c.scale(600)}, {"mix", c.scale(1200)}, {"saturate", c.scale(300)}}, false)
	return a.coverage(ruleS + "at least two bodies were in flight at once, or a goroutine census was taken while N bodies were held on the gate (wide: up to 10^5 jobs; barrier: N-party barrier after 0/1/N/3N Goexit jobs)")
}

func schedC05(c *ctx) map[string]interface{} {
	a := runSched(c, []famCount{{"mix", c.scale(1500)}, {"drain", c.scale(1200)}, {"failfast", c.scale(500)}, {"coe", c.scale(500)}, {"cancel", c.scale(500)}, {"emitgx", c.scale(300)}}, false)
	return a.coverage(ruleS + "at least two jobs (every scenario exercises Enqueue*, Wait and the exit paths)")
}

func schedC06(c *ctx) map[string]interface{} {
	a := runSched(c, []famCount{{"drain", c.scale(1500)}, {"failfast", c.scale(900)}, {"mix", c.scale(900)}, {"cancel", c.scale(500)}, {"coe", c.scale(400)}, {"prompt", c.scale(300)}, {"emitgx", c.scale(400)}}, false)
	return a.coverage(ruleS + "at least two jobs; after every scenario the process must return to its goroutine baseline (leaks are diagnosed from three stable dumps)")
}

func schedC07(c *ctx) map[string]interface{} {
	a := runSched(c, []famCount{{"failfast", c.scale(2500)}, {"drain", c.scale(500)}, {"cancel", c.scale(500)}, {"mix", c.scale(500)}, {"fanin", c.pick(16, 80)}}, false)
	return a.coverage(ruleS + "fail-fast mode and at least one job body actually failed")
}

func schedC08(c *ctx) map[string]interface{} {
	a := runSched(c, []famCount{{"coe", c.scale(3000)}, {"mix", c.scale(800)}, {"cancel", c.scale(400)}, {"fanin", c.pick(6, 60)}}, false)
	return a.coverage(ruleS + "ContinueOnError mode and at least one job body actually failed")
}

func schedC09(c *ctx) map[string]interface{} {
	a := runSched(c, []famCount{{"cancel", c.scale(2500)}, {"prompt", c.scale(600)}, {"saturate", c.scale(600)}, {"cancelgot", c.scale(600)}, {"mix", c.scale(500)}}, false)
	return a.coverage(ruleS + "the context was cancelled and either some job was in the must-not-start set (depends on the cancelling job / submitted after cancel() returned / all workers held until after cancel()) or at least two jobs were submitted")
}

func schedC19(c *ctx) map[string]interface{} {
	a := runSched(c, []famCount{{"state", c.scale(2500)}, {"mix", c.scale(600)}, {"drain", c.scale(300)}}, false)
	return a.coverage(ruleS + "at least one state report was emitted (StateFlushFrequency = 1ns) and checked")
}
