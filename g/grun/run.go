// Package grun is the Engine G child process: it executes freshly generated
// programs (registered through rt.Register by the packages linked into the
// binary) under generated scenarios and judges every execution against the
// reference semantics of package prog.
package grun

import (
	"encoding/json"
	"flag"
	"fmt"
	"os"
	"runtime"
	"strings"
	"sync"
	"sync/atomic"
	"time"

	"vg/mon"
	"vg/prog"
	"vg/rt"
)

type CaseViol struct {
	Prog     string            `json:"prog"`
	Tag      string            `json:"tag"`
	Idx      int               `json:"idx"`
	Props    []string          `json:"props"`
	Why      string            `json:"why"`
	Obs      map[string]string `json:"obs,omitempty"`
	Scenario *prog.Scenario    `json:"scenario,omitempty"`
	Features []string          `json:"features,omitempty"`
	Dump     string            `json:"dump,omitempty"`
}

type Batch struct {
	From, Count int
	Ran         int                 `json:"ran"`
	Programs    int                 `json:"programs"`
	Viols       []CaseViol          `json:"viols,omitempty"`
	Incon       []string            `json:"incon,omitempty"`
	Calls       int64               `json:"calls"`
	ArgEvents   int64               `json:"arg_events"`
	MidPoisons  int64               `json:"mid_poisons"`
	EmitEvents  int64               `json:"emit_events"`
	SchedStates int64               `json:"sched_states"`
	ByTag       map[string]int      `json:"by_tag"`
	NonTrivial  map[string]int      `json:"nontrivial"`
	Distinct    map[string][]uint64 `json:"distinct"` // per property: hashes of distinct non-trivial cases
	Features    map[string]int      `json:"features"`
	MaxHWM      map[int]int         `json:"max_hwm"`
	Samples     []json.RawMessage   `json:"samples,omitempty"`
	Abandoned   int                 `json:"abandoned"`
	Concurrent  int                 `json:"concurrent_execs"`
	Nested      int                 `json:"nested_execs"`
}

type result struct {
	x         *rt.Exec
	viols     []Viol
	leak      []mon.G
	leakIncon bool
}

// execute runs one execution to quiescence (without judging).
func execute(e *rt.Entry, sc *prog.Scenario, id uint64, quiet bool, setCur bool) *rt.Exec {
	x := rt.NewExec(id, e.Prog, sc, quiet)
	x.Limit = limitOf(effConc(e.Prog, sc))
	x.MaxJobs = 2*len(e.Prog.AllFns()) + 2
	for _, c := range sc.Colls {
		x.MaxJobs += len(c)
	}
	if setCur {
		rt.SetCurrent(x)
	}
	if sc.CancelBefore {
		x.DoCancel()
	}
	var helpers sync.WaitGroup
	stop := make(chan struct{})
	if sc.CancelOnFn != 0 && !quiet {
		helpers.Add(1)
		go func() {
			defer helpers.Done()
			select {
			case <-x.Started(sc.CancelOnFn):
			case <-stop:
			}
			x.DoCancel()
		}()
	}
	if sc.CancelOnFn != 0 && quiet {
		// race builds have no recorder to wait on: cancel after a short while
		helpers.Add(1)
		go func() {
			defer helpers.Done()
			t0 := time.Now()
			for time.Since(t0) < time.Duration(30+sc.CancelOnFn*17%200)*time.Microsecond {
				runtime.Gosched()
			}
			x.DoCancel()
		}()
	}
	switch sc.GateOpen {
	case "cancelled":
		helpers.Add(1)
		go func() {
			defer helpers.Done()
			select {
			case <-x.Reached():
				x.DoCancel()
			case <-stop:
			}
			x.OpenGate()
		}()
	case "onfn":
		helpers.Add(1)
		go func() {
			defer helpers.Done()
			select {
			case <-x.Started(sc.GateOnFn):
			case <-stop:
			}
			x.OpenGate()
		}()
	case "":
		x.OpenGate()
	case "hwm":
		n := int64(0)
		for _, o := range sc.Out {
			if o.Gate {
				n++
			}
		}
		if int64(x.Limit) < n {
			n = int64(x.Limit)
		}
		x.ReachTgt = n
		helpers.Add(1)
		go func() {
			defer helpers.Done()
			select {
			case <-x.Reached():
				// all the limit allows are in; give any excess time to show up
				t0 := time.Now()
				for time.Since(t0) < 3*time.Millisecond {
					runtime.Gosched()
				}
				// every running function is held: count the goroutines the
				// directive's scheduler has (workers + loop, whatever the number of
				// functions)
				nsched := 0
				for _, g := range mon.ParseDump(mon.DumpAll()) {
					if g.InScheduler() {
						nsched++
					}
				}
				x.CensusSched.Store(int64(nsched))
			case <-stop:
			}
			x.OpenGate()
		}()
		if quiet || n == 0 {
			x.OpenGate()
		}
	case "bigenq":
		rt.SetOnBigEnqueue(x.OpenGate)
		defer rt.SetOnBigEnqueue(nil)
	case "report":
		if quiet {
			x.OpenGate() // race builds have no recording emitter to open it
		}
	}
	func() {
		defer func() {
			if r := recover(); r != nil {
				x.Escaped = r
			}
		}()
		if !quiet {
			x.CallerGor = rt.Gor()
			x.RunStart = rt.Clock.Add(1)
		}
		err := e.Run(x)
		if !quiet {
			x.RunEnd = rt.Clock.Add(1)
			rt.Progress.Add(1)
		}
		x.Ret = err
	}()
	x.Returned.Store(true)
	close(stop)
	x.OpenGate()
	helpers.Wait()
	return x
}

func settle(x *rt.Exec, baseline int, quiet bool) (leak []mon.G, incon bool) {
	for k := 0; x.Inflight.Load() != 0; k++ {
		if k < 20000 {
			runtime.Gosched()
		} else {
			time.Sleep(time.Millisecond)
		}
	}
	if quiet {
		// no dumps in race builds (they synchronise with everything)
		for t0 := time.Now(); runtime.NumGoroutine() > baseline && time.Since(t0) < 300*time.Millisecond; {
			if time.Since(t0) < 3*time.Millisecond {
				runtime.Gosched()
			} else {
				time.Sleep(time.Millisecond)
			}
		}
		return nil, false
	}
	// Quiescence = no goroutine is left in scheduler code (workers run the
	// generated closures, whose deferred functions still emit events after the
	// user function has returned). The goroutine count alone does not decide it:
	// the baseline may include a goroutine of the harness that was about to exit.
	schedGs := func() []mon.G {
		var s []mon.G
		for _, g := range mon.ParseDump(mon.DumpAll()) {
			if g.InScheduler() {
				s = append(s, g)
			}
		}
		return s
	}
	t0 := time.Now()
	for {
		if len(schedGs()) == 0 {
			return nil, false
		}
		if time.Since(t0) > 500*time.Millisecond {
			break
		}
		if time.Since(t0) < 3*time.Millisecond {
			runtime.Gosched()
		} else {
			time.Sleep(time.Millisecond)
		}
	}
	for round := 0; round < 6; round++ {
		var sets [3][]mon.G
		for k := 0; k < 3; k++ {
			sets[k] = schedGs()
			if len(sets[k]) == 0 {
				return nil, false
			}
			time.Sleep(60 * time.Millisecond)
		}
		if mon.SameBlocked(sets[0], sets[1]) && mon.SameBlocked(sets[1], sets[2]) {
			return sets[2], false
		}
	}
	return nil, true
}

// watch waits for done; see sched.watch for the rules.
func watch(done chan struct{}, quiet bool, inflight func() int64) (string, string) {
	tick := time.NewTicker(100 * time.Millisecond)
	defer tick.Stop()
	last := rt.Progress.Load()
	lastChange := time.Now()
	start := time.Now()
	for {
		select {
		case <-done:
			return "done", ""
		case <-tick.C:
		}
		if quiet {
			if time.Since(start) > 90*time.Second {
				return "inconclusive", mon.DumpAll()
			}
			continue
		}
		if p := rt.Progress.Load(); p != last {
			last, lastChange = p, time.Now()
			continue
		}
		static := time.Since(lastChange)
		if static < 1500*time.Millisecond {
			continue
		}
		var sets [3][]mon.G
		var text string
		allBlocked := true
		for k := 0; k < 3 && allBlocked; k++ {
			text = mon.DumpAll()
			for _, g := range mon.ParseDump(text) {
				if g.Has("grun.watch") {
					continue
				}
				sets[k] = append(sets[k], g)
				if !g.Blocked() {
					allBlocked = false
				}
			}
			if k < 2 {
				time.Sleep(100 * time.Millisecond)
			}
		}
		select {
		case <-done:
			return "done", ""
		default:
		}
		if allBlocked && rt.Progress.Load() == last && mon.SameBlocked(sets[0], sets[1]) && mon.SameBlocked(sets[1], sets[2]) {
			return "stuck", trimDump(text)
		}
		if static > 15*time.Second && inflight() == 0 && rt.Progress.Load() == last {
			for _, g := range sets[0] {
				if g.InScheduler() && !g.Blocked() {
					return "spin", trimDump(text)
				}
			}
		}
		if static > 40*time.Second {
			return "inconclusive", trimDump(text)
		}
	}
}

func trimDump(s string) string {
	var b strings.Builder
	for _, l := range strings.Split(s, "\n") {
		if strings.HasPrefix(l, "\t") {
			continue
		}
		b.WriteString(l)
		b.WriteByte('\n')
		if b.Len() > 20000 {
			break
		}
	}
	return b.String()
}

func caseHash(name string, sc *prog.Scenario) uint64 {
	b, _ := json.Marshal(sc)
	h := uint64(1469598103934665603)
	for _, c := range []byte(name) {
		h ^= uint64(c)
		h *= 1099511628211
	}
	// scenario tokens embed the exec id: hash the shape only
	for _, c := range b {
		if c >= '0' && c <= '9' {
			continue
		}
		h ^= uint64(c)
		h *= 1099511628211
	}
	for id, o := range sc.Out {
		h ^= prog.Mix(uint64(id)*31 + uint64(o.Kind)*7 + uint64(o.PanicKind))
	}
	h ^= prog.Mix(uint64(sc.Conc) + 977)
	return h
}

// Plan: which scenario families, and how many scenarios of each, per program.
type Plan struct {
	Tags       []string
	PerTag     int
	Concurrent bool // also run concurrent executions of the same directive
}

func parsePlan(s string, per int, conc bool) Plan {
	return Plan{Tags: strings.Split(s, ","), PerTag: per, Concurrent: conc}
}

// applicable: does the scenario family make sense for the program?
func applicable(p *prog.Program, tag string) bool {
	switch tag {
	case "pred", "predgate":
		return p.HasFeature("predicate")
	case "state":
		return p.HasFeature("emitters")
	case "wide", "widegx":
		return p.HasFeature("wide")
	case "bigend":
		// heavy (65537+ element calls): every sixth program with an End hook
		return p.HasFeature("end-hook") && hashStr(p.Name)%6 == 0
	}
	return true
}

// Main is the entry point of the generated runner binary.
func Main() {
	seed := flag.Uint64("seed", 1, "")
	from := flag.Int("from", 0, "")
	count := flag.Int("count", 1<<30, "")
	tags := flag.String("tags", "ok,pred,fault", "")
	per := flag.Int("per", 3, "scenarios per family and program")
	quiet := flag.Bool("quiet", false, "")
	conc := flag.Bool("concurrent", false, "")
	out := flag.String("out", "", "")
	progress := flag.String("progress", "", "")
	list := flag.Bool("list", false, "")
	only := flag.String("only", "", "run this program only")
	flag.Parse()
	names := rt.Names()
	if *only != "" {
		if rt.Lookup(*only) == nil {
			fmt.Fprintln(os.Stderr, "no such program:", *only)
			os.Exit(2)
		}
		names = []string{*only}
		*from, *count = 0, 1
	}
	if *list {
		for _, n := range names {
			fmt.Println(n)
		}
		return
	}
	b := RunBatch(*seed, names, *from, *count, parsePlan(*tags, *per, *conc), *quiet, *progress)
	js, _ := json.Marshal(b)
	if *out == "" {
		os.Stdout.Write(js)
		return
	}
	if err := os.WriteFile(*out, js, 0o644); err != nil {
		fmt.Fprintln(os.Stderr, err)
		os.Exit(2)
	}
}

func RunBatch(seed uint64, names []string, from, count int, plan Plan, quiet bool, progressFile string) *Batch {
	b := &Batch{From: from, Count: count, ByTag: map[string]int{}, NonTrivial: map[string]int{}, Distinct: map[string][]uint64{}, Features: map[string]int{}, MaxHWM: map[int]int{}}
	distinct := map[string]map[uint64]struct{}{}
	var pf *os.File
	if progressFile != "" {
		pf, _ = os.Create(progressFile)
		defer pf.Close()
	}
	to := from + count
	if to > len(names) {
		to = len(names)
	}
	// nested directives: a stub runs the directive of another program of this
	// runner (one whose functions all find their execution without the global)
	var nestable []*rt.Entry
	for _, n := range rt.Names() {
		if e := rt.Lookup(n); e.Prog.ConcurrentOK {
			nestable = append(nestable, e)
		}
	}
	var nestSeq atomic.Uint64
	rt.NestedRun = func(parent *rt.Exec, fn int) {
		if len(nestable) == 0 {
			return
		}
		n := nestSeq.Add(1)
		e2 := nestable[int(prog.Mix(seed^parent.ID*131^uint64(fn))%uint64(len(nestable)))]
		id := rt.NextID()
		tag2 := []string{"ok", "ok", "fault", "panic", "pred"}[n%5]
		if !applicable(e2.Prog, tag2) {
			tag2 = "ok"
		}
		sc2 := prog.GenScenario(e2.Prog, prog.NewRand(seed, parent.ID, uint64(fn), n), id, tag2, int(n))
		x2 := execute(e2, sc2, id, quiet, false)
		x2.NestEntry = e2
		parent.AddChild(x2)
	}
outer:
	for pi := from; pi < to; pi++ {
		e := rt.Lookup(names[pi])
		b.Programs++
		for _, f := range e.Prog.Features {
			b.Features[f]++
		}
		for _, tag := range plan.Tags {
			if !applicable(e.Prog, tag) {
				continue
			}
			for k := 0; k < plan.PerTag; k++ {
				// "conc": G simultaneous executions of the same directive from G
				// goroutines (generated code is re-entrant), each with its own
				// tokens and scenario, each judged on its own.
				if tag == "bigend" && k > 0 {
					break // once per program
				}
				group := 1
				scTag := tag
				if tag == "conc" {
					if !e.Prog.ConcurrentOK {
						break
					}
					group = []int{4, 8, 32}[k%3]
					scTag = []string{"ok", "ok", "pred", "fault"}[k%4]
					if !applicable(e.Prog, scTag) {
						scTag = "ok"
					}
				}
				scs := make([]*prog.Scenario, group)
				ids := make([]uint64, group)
				xs := make([]*rt.Exec, group)
				// es[gi]: the program execution gi runs. In every other simultaneous
				// group a third of the executions run a *different* directive (another
				// program of this runner), so that different directives overlap too.
				es := make([]*rt.Entry, group)
				for gi := 0; gi < group; gi++ {
					es[gi] = e
					if group > 1 && k%2 == 1 && gi%3 == 2 && len(nestable) > 0 {
						es[gi] = nestable[int(prog.Mix(seed^hashStr(e.Name)^uint64(k*131+gi))%uint64(len(nestable)))]
					}
					r := prog.NewRand(seed, hashStr(e.Name), hashStr(tag), uint64(k), uint64(gi))
					if group == 1 {
						r = prog.NewRand(seed, hashStr(e.Name), hashStr(tag), uint64(k))
					}
					ids[gi] = rt.NextID()
					t := scTag
					if !applicable(es[gi].Prog, t) {
						t = "ok"
					}
					scs[gi] = prog.GenScenario(es[gi].Prog, r, ids[gi], t, k+gi)
				}
				sc := scs[0]
				// seeded choice of a perturbation profile for the scheduler's hook points
				rt.SetPerturb([]int{0, 1, 2, 3, 0, 2}[int(prog.Mix(seed^hashStr(e.Name)^uint64(k)*7919)%6)])
				if pf != nil {
					fmt.Fprintf(pf, "BEGIN %s %s %d\n", e.Name, tag, k)
				}
				baseline := runtime.NumGoroutine()
				done := make(chan struct{})
				var viols []Viol
				var leak []mon.G
				var leakIncon bool
				var started atomic.Bool
				nested := 0
				go func() {
					defer close(done)
					if group == 1 {
						xs[0] = execute(e, scs[0], ids[0], quiet, true)
					} else {
						var wg sync.WaitGroup
						gate := make(chan struct{})
						for gi := 0; gi < group; gi++ {
							wg.Add(1)
							go func(gi int) {
								defer wg.Done()
								<-gate
								xs[gi] = execute(es[gi], scs[gi], ids[gi], quiet, false)
							}(gi)
						}
						close(gate)
						wg.Wait()
					}
					started.Store(true)
					for gi := 0; gi < group; gi++ {
						l, li := settle(xs[gi], baseline+1, quiet)
						leak = append(leak, l...)
						leakIncon = leakIncon || li
						if !quiet {
							for _, v := range Judge(es[gi], scs[gi], xs[gi]) {
								if group > 1 {
									v.Why = fmt.Sprintf("[execution %d (%s) of %d simultaneous executions] %s", gi, es[gi].Name, group, v.Why)
								}
								viols = append(viols, v)
							}
							for ci, ch := range xs[gi].Children() {
								settle(ch, baseline+1, quiet)
								ce := ch.NestEntry.(*rt.Entry)
								for _, v := range Judge(ce, ch.Sc, ch) {
									v.Why = fmt.Sprintf("[directive of %s nested in a function of %s, nested execution %d] %s", ce.Name, e.Name, ci, v.Why)
									viols = append(viols, v)
								}
								nested++
								ch.Close()
							}
						}
					}
				}()
				verdict, dump := watch(done, quiet, func() int64 {
					if !started.Load() {
						return 1
					}
					var n int64
					for _, x := range xs {
						if x != nil {
							n += x.Inflight.Load()
						}
					}
					return n
				})
				b.Ran += group
				b.ByTag[tag] += group
				if group > 1 {
					b.Concurrent += group
				}
				b.Nested += nested
				if verdict != "done" {
					b.Abandoned++
					switch verdict {
					case "stuck":
						props := []string{"C05"}
						why := ""
						if sc.GateOpen == "return" {
							props = []string{"C09"}
							why = " (a function is held until the directive returns; the context was cancelled: the directive must return without waiting for it)"
						}
						if sc.GateOpen == "failreturn" {
							props = []string{"C04", "C07"}
							why = " (a function is held until the directive returns while another one fails: a fail-fast directive reports the first failure - the error, or the PanicError of the panic - without waiting for functions that are still running)"
						}
						if sc.GateOpen == "onfn" {
							props = []string{"C11"}
							why = fmt.Sprintf(" (the provider %d of another input of task %d is held until predicate %d is entered: the predicate must start as soon as its own inputs are available)", sc.PredGate[2], sc.PredGate[0], sc.PredGate[1])
						}
						if sc.GateOpen == "hwm" {
							props = []string{"C03"}
							why = " (every function is held until as many are in flight as the limit allows: the capacity must be real)"
						}
						b.Viols = append(b.Viols, CaseViol{Prog: e.Name, Tag: tag, Idx: k, Props: props,
							Why: "stuck" + why + ": the directive has not returned, no harness event for 1.5 s and every goroutine is blocked in the same place in three consecutive dumps", Scenario: sc, Features: e.Prog.Features, Dump: dump})
					case "spin":
						b.Viols = append(b.Viols, CaseViol{Prog: e.Name, Tag: tag, Idx: k, Props: []string{"C05"},
							Why: "no progress for 15 s with no user function running and scheduler goroutines runnable", Scenario: sc, Features: e.Prog.Features, Dump: dump})
					default:
						b.Incon = append(b.Incon, fmt.Sprintf("%s/%s/%d: watchdog expired without a decidable state", e.Name, tag, k))
					}
					break outer
				}
				if quiet {
					markNT(b, distinct, "C12", e, sc)
					continue
				}
				if leakIncon {
					b.Incon = append(b.Incon, fmt.Sprintf("%s/%s/%d: goroutines remained but were not stable", e.Name, tag, k))
				}
				if len(leak) > 0 {
					var d []string
					for _, g := range leak {
						d = append(d, fmt.Sprintf("goroutine %d [%s] %s", g.ID, g.State, strings.Join(g.Frames, " < ")))
					}
					viols = append(viols, Viol{Props: []string{"C06"}, Why: fmt.Sprintf("%d goroutine(s) started for the directive (by the scheduler, or by the context package for a context derived from the directive's) still blocked after the directive returned and every started function ended: %s", len(leak), strings.Join(d, "; "))})
				}
				for _, v := range viols {
					if len(b.Viols) < 60 {
						b.Viols = append(b.Viols, CaseViol{Prog: e.Name, Tag: tag, Idx: k, Props: v.Props, Why: v.Why, Obs: v.Obs, Scenario: sc, Features: e.Prog.Features})
					}
				}
				for gi := 0; gi < group; gi++ {
					account(b, distinct, es[gi], scs[gi], xs[gi])
					xs[gi].Close()
				}
			}
		}
	}
	for p, m := range distinct {
		for h := range m {
			b.Distinct[p] = append(b.Distinct[p], h)
		}
	}
	return b
}

func markNT(b *Batch, distinct map[string]map[uint64]struct{}, prop string, e *rt.Entry, sc *prog.Scenario) {
	b.NonTrivial[prop]++
	if distinct[prop] == nil {
		distinct[prop] = map[uint64]struct{}{}
	}
	distinct[prop][caseHash(e.Name, sc)] = struct{}{}
}

// account records what the monitors observed and for which properties the
// case was non-trivial.
func account(b *Batch, distinct map[string]map[uint64]struct{}, e *rt.Entry, sc *prog.Scenario, x *rt.Exec) {
	p := e.Prog
	calls := x.Calls()
	b.Calls += int64(len(calls))
	b.ArgEvents += int64(len(x.Args()))
	b.MidPoisons += x.MidPoisons.Load()
	b.EmitEvents += int64(len(x.Emits()))
	b.SchedStates += x.SchedStates()
	lim := limitOf(effConc(e.Prog, sc))
	if h := int(x.HWM.Load()); h > b.MaxHWM[lim] {
		b.MaxHWM[lim] = h
	}
	faulty, panics := false, false
	for _, c := range calls {
		if c.End == prog.OErr || c.End == prog.OPanic {
			faulty = true
		}
		if c.End == prog.OPanic {
			panics = true
		}
	}
	nfn := len(p.AllFns())
	multiIn := false
	for _, f := range p.AllFns() {
		if len(f.Ins) >= 2 {
			multiIn = true
		}
	}
	elems := 0
	for _, c := range sc.Colls {
		elems += len(c)
	}
	nt := map[string]bool{
		"C01": len(calls) >= 2 && (p.Flow != nil && nfn >= 2 || p.HasFeature("end-hook")),
		"C02": p.Flow != nil && !faulty && nfn >= 3 && multiIn,
		"C03": x.HWM.Load() >= 2,
		"C04": panics,
		"C05": len(calls) >= 1,
		"C06": len(calls) >= 1,
		"C07": faulty && !sc.COE,
		"C08": p.Par != nil && p.Par.COE && faulty,
		"C09": sc.CancelBefore || sc.CancelOnFn != 0,
		"C10": p.Par != nil && !faulty && (elems >= 2 || nfn >= 2),
		"C11": p.HasFeature("predicate") || p.HasFeature("fallback"),
		"C15": (p.Wrap || p.Bare) && p.NumSites >= 3,
		"C18": len(x.Emits()) > 0,
		"C19": x.SchedStates() > 0,
	}
	for prop, ok := range nt {
		if ok {
			markNT(b, distinct, prop, e, sc)
		}
	}
	if len(b.Samples) < 2 && nfn >= 2 && nfn <= 6 {
		js, _ := json.Marshal(map[string]interface{}{"program": p, "scenario": sc, "calls": len(calls), "returned_error": x.Ret != nil})
		b.Samples = append(b.Samples, js)
	}
}

func hashStr(s string) uint64 {
	h := uint64(1469598103934665603)
	for i := 0; i < len(s); i++ {
		h ^= uint64(s[i])
		h *= 1099511628211
	}
	return h
}
