package grun

import (
	"context"
	"errors"
	"fmt"
	"reflect"
	"runtime"
	"sort"
	"strings"

	"go.uber.org/cff"
	"go.uber.org/multierr"

	"vg/prog"
	"vg/rt"
)

// Viol is one violated oracle clause; Props lists the properties it refutes.
type Viol struct {
	Props []string          `json:"props"`
	Why   string            `json:"why"`
	Obs   map[string]string `json:"obs,omitempty"`
}

type judgeCtx struct {
	e     *rt.Entry
	p     *prog.Program
	sc    *prog.Scenario
	x     *rt.Exec
	calls []rt.CallEv
	byFn  map[int][]*rt.CallEv
	viols []Viol
	// classification of the case
	hasPredFB bool
	faulty    bool // scenario injects failures
	panics    bool
	cancelled bool
}

func (j *judgeCtx) add(props []string, format string, a ...interface{}) {
	j.viols = append(j.viols, Viol{Props: props, Why: fmt.Sprintf(format, a...)})
}

func uniq(props ...string) []string {
	m := map[string]bool{}
	var out []string
	for _, p := range props {
		if p != "" && !m[p] {
			m[p] = true
			out = append(out, p)
		}
	}
	sort.Strings(out)
	return out
}

// dataProps: which properties a dataflow / invocation mismatch refutes here.
func (j *judgeCtx) dataProps() []string {
	var ps []string
	if j.p.Flow != nil {
		if !j.faulty && !j.cancelled {
			ps = append(ps, "C02")
		}
		if j.hasPredFB {
			ps = append(ps, "C11")
		}
		if j.faulty {
			ps = append(ps, "C07")
		}
	} else {
		if !j.faulty && !j.cancelled {
			ps = append(ps, "C10")
		}
		if j.faulty {
			if j.sc.COE {
				ps = append(ps, "C08")
			} else {
				ps = append(ps, "C07")
			}
		}
	}
	if j.panics {
		ps = append(ps, "C04")
	}
	if j.cancelled {
		ps = append(ps, "C09")
	}
	return uniq(ps...)
}

func tokens(a []uint64) string {
	var s []string
	for _, t := range a {
		s = append(s, fmt.Sprintf("%x", t))
	}
	return "[" + strings.Join(s, " ") + "]"
}

func sameToks(a, b []uint64) bool {
	if len(a) != len(b) {
		return false
	}
	for i := range a {
		if a[i] != b[i] {
			return false
		}
	}
	return true
}

// panicValueEq compares a PanicError.Value with a value observed at a stub.
func panicValueEq(got, want interface{}) bool {
	if got == nil || want == nil {
		return false
	}
	if re, ok := want.(runtime.Error); ok {
		ge, ok2 := got.(runtime.Error)
		return ok2 && reflect.TypeOf(got) == reflect.TypeOf(want) && ge.Error() == re.Error()
	}
	if reflect.TypeOf(got) != reflect.TypeOf(want) {
		return false
	}
	if reflect.TypeOf(got).Comparable() {
		return got == want
	}
	return reflect.DeepEqual(got, want)
}

// matchFailure: does the error e stand for an observed failing call that is
// not in used? Returns the matching call.
func (j *judgeCtx) matchFailure(e error, used map[*rt.CallEv]bool) *rt.CallEv {
	var pe *cff.PanicError
	isPanic := errors.As(e, &pe)
	if !isPanic {
		// identity first: a call may have returned a shared sentinel
		// (context.DeadlineExceeded itself) that other calls' errors wrap
		for i := range j.calls {
			c := &j.calls[i]
			if !used[c] && c.End == prog.OErr && c.Err != nil && sameErr(e, c.Err) {
				return c
			}
		}
	}
	for i := range j.calls {
		c := &j.calls[i]
		if used[c] {
			continue
		}
		if isPanic {
			if c.End == prog.OPanic && panicValueEq(pe.Value, c.PanicV) {
				return c
			}
			continue
		}
		if c.End == prog.OErr && c.Err != nil && isErr(e, c.Err) {
			return c
		}
	}
	return nil
}

// isErr: e is (errors.Is) the error target a call returned. errors.Is compares
// with == and therefore never matches a target of non-comparable dynamic type
// (a slice-typed error): those are matched along the Unwrap chain by deep
// equality (every such error is unique per call).
func isErr(e, target error) bool {
	if errors.Is(e, target) {
		return true
	}
	if reflect.TypeOf(target).Comparable() {
		return false
	}
	for cur := e; cur != nil; cur = errors.Unwrap(cur) {
		if reflect.TypeOf(cur) == reflect.TypeOf(target) && reflect.DeepEqual(cur, target) {
			return true
		}
	}
	return false
}

func isCtxErr(e error) bool {
	return errors.Is(e, context.Canceled) || errors.Is(e, context.DeadlineExceeded)
}

// effConc: the concurrency the directive was configured with (0 = default).
func effConc(p *prog.Program, sc *prog.Scenario) int {
	if (p.Flow != nil && p.Flow.Concurrency) || (p.Par != nil && p.Par.Concurrency) {
		return sc.Conc
	}
	return 0
}

func limitOf(conc int) int {
	if conc != 0 {
		return conc
	}
	l := runtime.GOMAXPROCS(0)
	if l < 4 {
		l = 4
	}
	return l
}

// Judge evaluates every oracle over the quiescent execution.
func Judge(e *rt.Entry, sc *prog.Scenario, x *rt.Exec) []Viol {
	j := &judgeCtx{e: e, p: e.Prog, sc: sc, x: x, byFn: map[int][]*rt.CallEv{}}
	j.calls = x.Calls()
	for i := range j.calls {
		c := &j.calls[i]
		j.byFn[c.Fn] = append(j.byFn[c.Fn], c)
	}
	p := j.p
	if p.Flow != nil {
		for _, t := range p.Flow.Tasks {
			if t.Pred != nil || t.Fallback {
				j.hasPredFB = true
			}
		}
	}
	for _, o := range sc.Out {
		if o.Kind == prog.OErr || o.Kind == prog.OPanic || o.Kind == prog.OGoexit {
			j.faulty = true
		}
		if o.Kind == prog.OPanic {
			j.panics = true
		}
		if o.Kind == prog.OCancelOK {
			j.cancelled = true
		}
	}
	for _, m := range sc.ElemOut {
		for _, o := range m {
			if o.Kind == prog.OErr || o.Kind == prog.OPanic || o.Kind == prog.OGoexit {
				j.faulty = true
			}
			if o.Kind == prog.OPanic {
				j.panics = true
			}
		}
	}
	if sc.CancelBefore || sc.CancelOnFn != 0 {
		j.cancelled = true
	}

	// ---- C04: containment --------------------------------------------------
	if x.Escaped != nil {
		j.add(uniq("C04"), "a panic propagated to the caller of the directive: %v", x.Escaped)
	}
	if sc.EmitGoexit {
		// the loop goroutine was killed by the state emitter: what the directive
		// returns and which functions ran is not specified; termination and leaks
		// are judged by the runner
		return j.viols
	}
	// ---- C03: bounded concurrency -------------------------------------------
	if lim := limitOf(effConc(p, sc)); int(x.HWM.Load()) > lim {
		j.add(uniq("C03"), "%d user functions were executing at once; the limit is %d (Concurrency(%d))", x.HWM.Load(), lim, sc.Conc)
	}
	if n := int(x.CensusSched.Load()); n > 0 {
		// N workers + the loop (+ transiently the goroutine that starts workers)
		lim := limitOf(effConc(p, sc))
		if n > lim+2 {
			j.add(uniq("C03"), "%d goroutines in scheduler code while %d functions were held (limit %d, the directive has %d functions): goroutines grow beyond a function of the limit", n, x.HWM.Load(), lim, len(p.AllFns()))
		}
	}
	if n := x.EmitOverlaps.Load(); n > 0 {
		j.add(uniq("C03", "C19"), "%d scheduler state reports were handed to an emitter while an earlier report was still being delivered to it: reports come from the scheduler's loop, one at a time - a goroutine per report makes the number of goroutines grow with the emitter's latency, not with the limit", n)
	}
	if x.BadStates.Load() > 0 {
		j.add(uniq("C19"), "%d scheduler state reports received through cff.SchedulerEmitter are inconsistent, first: %s", x.BadStates.Load(), x.FirstBadState)
	}
	if x.Ret == nil && x.Escaped == nil && !j.cancelled && x.LastStateExit.Load() > x.RunEnd {
		j.add(uniq("C19"), "a scheduler state report was still being delivered (EmitScheduler returned at t=%d) after the directive had returned nil (t=%d)", x.LastStateExit.Load(), x.RunEnd)
	}
	// ---- every call ended before a nil return --------------------------------
	if x.Ret == nil && x.Escaped == nil {
		for _, c := range j.calls {
			if c.T1 == 0 || c.T1 > x.RunEnd {
				j.add(j.dataProps(), "the directive returned nil (t=%d) while function %d was still running (start t=%d, end t=%d)", x.RunEnd, c.Fn, c.T0, c.T1)
				break
			}
		}
	}
	// ---- C09: context handed to functions -----------------------------------
	for _, c := range j.calls {
		if c.CtxSeen == 2 {
			j.add(uniq("C09"), "function %d received a context that is not the directive's context", c.Fn)
			break
		}
	}
	for _, sv := range x.SeenValues() {
		if len(sc.Params) > 0 && sv[1] != sc.Params[0] {
			j.add(uniq("C15"), "the function literal of function %d read the enclosing function's variable %s (named like an identifier of the generated code) and saw %x instead of its value %x: a generated identifier captured the name", sv[0], p.ShadowName(0), sv[1], sc.Params[0])
			break
		}
	}
	for _, n := range x.LateNotes() {
		j.add(uniq("C15"), "%s", n)
	}
	// ---- C15: Bare programs - nothing may be read from an argument variable
	// once a user function has been entered -------------------------------------
	if p.Bare {
		late := func(format string, a ...interface{}) {
			when := "after a user function had started (the program overwrites its argument variables when the first user function is entered)"
			if p.BareMix > 0 {
				when = "after an argument that follows it in the source, or after a user function had started (every argument of this program that is a call overwrites the argument variables written before it, and all are overwritten when the first user function is entered)"
			}
			j.add(uniq("C15"), "an argument of the directive was evaluated "+when+": "+format, a...)
		}
	bare:
		for _, c := range j.calls {
			switch {
			case c.Fn >= prog.PoisonFn:
				late("the function variable of function %d was read late - its replacement was called", c.Fn-prog.PoisonFn)
				break bare
			case c.CtxSeen == 3:
				late("function %d received the replacement context", c.Fn)
				break bare
			}
			for _, a := range c.Args {
				if prog.IsPoison(a) {
					late("function %d was called with the replacement value of argument site %d", c.Fn, a&0xFF)
					break bare
				}
			}
		}
		for i, r := range x.Results {
			if prog.IsPoison(r) {
				late("Results target %d holds the replacement value of argument site %d", i, r&0xFF)
				break
			}
		}
		if n := x.DummiesWritten(); n > 0 {
			late("%d Results pointers were read late (the result was stored through the replacement pointer)", n)
		}
		for _, e := range x.Emits() {
			if e.Em == rt.PoisonEmitter || e.Name == "POISON" {
				late("emitter event %s(%s) went to the replacement emitter / carries the replacement name", e.M, e.Name)
				break
			}
		}
	}
	// The directive's context is still live at quiescence when nobody cancelled
	// it; a context handed to a function that is done by then is therefore not
	// the directive's context (e.g. a derived one that generated code cancels on
	// return: values that retain it - requests, transactions - die with it).
	if x.CancelReq.Load() == 0 && x.Ctx().Err() == nil {
		for _, c := range j.calls {
			if c.Ctx != nil && c.Ctx.Err() != nil {
				j.add(uniq("C09", "C20"), "function %d was handed a context that is done (%v) after the directive returned, although the directive's context was never cancelled", c.Fn, c.Ctx.Err())
				break
			}
		}
	}
	if p.Flow != nil {
		j.judgeFlow()
	} else {
		j.judgePar()
	}
	j.judgeArgs()
	j.judgeEmitters()
	return j.viols
}

// depsOf: the functions whose completion must precede function id (abstract
// program, not generated code).
func flowDeps(p *prog.Program) map[int][]int {
	provider := map[int]int{}
	for _, t := range p.Flow.Tasks {
		for _, o := range t.Fn.Outs {
			provider[o] = t.Fn.ID
		}
	}
	deps := map[int][]int{}
	for _, t := range p.Flow.Tasks {
		for _, in := range t.Fn.Ins {
			if pr, ok := provider[in]; ok {
				deps[t.Fn.ID] = append(deps[t.Fn.ID], pr)
			}
		}
		if t.Pred != nil {
			deps[t.Fn.ID] = append(deps[t.Fn.ID], t.Pred.ID)
			for _, in := range t.Pred.Ins {
				if pr, ok := provider[in]; ok {
					deps[t.Pred.ID] = append(deps[t.Pred.ID], pr)
				}
			}
		}
	}
	return deps
}

func (j *judgeCtx) judgeFlow() {
	p, sc, x := j.p, j.sc, j.x
	ref := prog.RefFlow(p, sc, x.ID)
	dp := j.dataProps()

	// C01: order. A function starts only after the functions it depends on ended.
	deps := flowDeps(p)
	for fn, cs := range j.byFn {
		for _, c := range cs {
			for _, d := range deps[fn] {
				dcs := j.byFn[d]
				// The dependency may legitimately not have been called at all
				// (predicate false / recovered by fallback): order only binds
				// calls that happened.
				for _, dc := range dcs {
					if dc.T1 == 0 || dc.T1 > c.T0 {
						j.add(uniq("C01"), "function %d started at t=%d before function %d, which it depends on, had ended (t=%d)", fn, c.T0, d, dc.T1)
					}
				}
			}
		}
	}

	if !j.cancelled {
		for id, fr := range ref.Fns {
			cs := j.byFn[id]
			switch fr.Status {
			case prog.MustCall:
				if len(cs) != 1 {
					j.add(dp, "function %d was called %d times, expected exactly once (scenario %s)", id, len(cs), sc.Tag)
				}
			case prog.MustNot:
				if len(cs) != 0 {
					why := "its predicate did not return true"
					if fr.TaskEnd == prog.TEblocked || fr.PredOf != 0 {
						why = "a function it depends on failed or was never run"
					}
					j.add(uniq(append(dp, "C07")...), "function %d was called %d times although %s", id, len(cs), why)
				}
			case prog.May:
				if len(cs) > 1 {
					j.add(dp, "function %d was called %d times", id, len(cs))
				}
			}
			for _, c := range cs {
				if fr.Status != prog.MustNot && !sameToks(c.Args, fr.Args) {
					j.add(dp, "function %d was called with %s, the providers of its inputs returned %s", id, tokens(c.Args), tokens(fr.Args))
				}
			}
		}
	} else {
		for id, cs := range j.byFn {
			if len(cs) > 1 {
				j.add(uniq("C01", "C09"), "function %d was called %d times", id, len(cs))
			}
		}
	}

	failed := x.Ret != nil
	switch {
	case j.cancelled:
		j.judgeCancel(deps)
	case !ref.Fails:
		if failed {
			j.add(dp, "the flow returned %q although no task failed (scenario %s)", x.Ret.Error(), sc.Tag)
		} else {
			for i := range ref.Results {
				if x.Results[i] != ref.Results[i] {
					j.add(dp, "Results target %d holds %x, its provider returned %x", i, x.Results[i], ref.Results[i])
				}
			}
		}
	default:
		fp := uniq(append(dp, "C07")...)
		if !failed {
			j.add(fp, "the flow returned nil although a task failed without fallback (failing: %v)", keys(ref.Failing))
		} else {
			if c := j.matchFailure(x.Ret, nil); c == nil {
				j.add(fp, "the returned error %q is not the error (or PanicError) of any task that actually failed", short(x.Ret.Error()))
			}
			for i := range sc.Sentinels {
				if x.Results[i] != sc.Sentinels[i] {
					j.add(uniq("C07"), "Results target %d was modified (now %x) although the flow returned an error", i, x.Results[i])
				}
			}
		}
	}
}

func keys(m map[int]bool) []int {
	var out []int
	for k := range m {
		out = append(out, k)
	}
	sort.Ints(out)
	return out
}

func short(s string) string {
	if i := strings.IndexByte(s, '\n'); i > 0 {
		s = s[:i]
	}
	if len(s) > 160 {
		s = s[:160] + "..."
	}
	return s
}

// judgeCancel: structural cancellation clauses at the generated level.
func (j *judgeCtx) judgeCancel(deps map[int][]int) {
	x, sc := j.x, j.sc
	if sc.CancelBefore {
		if len(j.calls) > 0 {
			j.add(uniq("C09"), "%d user functions were started although the context was cancelled before the directive was called (first: function %d)", len(j.calls), j.calls[0].Fn)
		}
		if x.Ret == nil {
			j.add(uniq("C09"), "the directive returned nil although its context was cancelled before the call")
		}
		return
	}
	// cancel inside a function body: everything that depends on it must not start
	cancellers := map[int]bool{}
	for id, o := range sc.Out {
		if o.Kind == prog.OCancelOK && len(j.byFn[id]) > 0 && j.byFn[id][0].T1 != 0 {
			cancellers[id] = true
		}
	}
	if len(cancellers) > 0 {
		if x.Ret == nil {
			j.add(uniq("C09"), "the directive returned nil although function %v cancelled its context", keys(cancellers))
		}
		var dependsOn func(fn int, seen map[int]bool) bool
		dependsOn = func(fn int, seen map[int]bool) bool {
			if seen[fn] {
				return false
			}
			seen[fn] = true
			for _, d := range deps[fn] {
				if cancellers[d] || dependsOn(d, seen) {
					return true
				}
			}
			return false
		}
		for fn, cs := range j.byFn {
			if len(cs) > 0 && dependsOn(fn, map[int]bool{}) {
				j.add(uniq("C09"), "function %d was started although it depends on a function whose body cancelled the context", fn)
			}
		}
	}
}

func (j *judgeCtx) judgePar() {
	p, sc, x := j.p, j.sc, j.x
	ref := prog.RefPar(p, sc, x.ID)
	dp := j.dataProps()

	// End hooks: after every element call of their collection, never when one failed.
	for endID, elemFn := range ref.Ends {
		ecs := j.byFn[endID]
		if len(ecs) > 1 {
			j.add(uniq("C10", "C01"), "End hook %d was called %d times", endID, len(ecs))
		}
		for _, ec := range ecs {
			n := 0
			for _, c := range j.byFn[elemFn] {
				n++
				if c.T1 == 0 || c.T1 > ec.T0 {
					j.add(uniq("C10", "C01"), "End hook %d started at t=%d before element call %s of its collection had returned (t=%d)", endID, ec.T0, tokens(c.Args), c.T1)
				}
				if c.End != prog.OOK {
					j.add(uniq("C10", "C01", "C07"), "End hook %d was invoked although element call %s of its collection ended with %s", endID, tokens(c.Args), prog.OName(c.End))
				}
			}
			if n != len(ref.Elems[elemFn]) {
				j.add(uniq("C10", "C01"), "End hook %d was invoked after only %d of %d element calls", endID, n, len(ref.Elems[elemFn]))
			}
		}
	}
	// element calls: never twice, always with (i, s[i]) / (k, m[k])
	for fn, want := range ref.Elems {
		seen := map[uint64]int{}
		info := sc.FnInfo[fn]
		for _, c := range j.byFn[fn] {
			if len(c.Args) == 0 {
				continue
			}
			key := c.Args[0]
			seen[key]++
			w, ok := want[key]
			switch {
			case !ok:
				j.add(dp, "element function %d was called with %s, which is not an element of its collection", fn, tokens(c.Args))
			case !sameToks(c.Args, w.Args):
				j.add(dp, "element function %d was called with %s, the collection holds %s", fn, tokens(c.Args), tokens(w.Args))
			}
			_ = info
		}
		for key, n := range seen {
			if n > 1 {
				j.add(uniq(append(dp, "C10")...), "element function %d was called %d times for element %x", fn, n, key)
			}
		}
		mustAll := !j.cancelled && (!ref.Fails || sc.COE)
		if mustAll {
			for key, w := range want {
				if seen[key] == 0 {
					j.add(dp, "element function %d was never called for element %s", fn, tokens(w.Args))
					break
				}
			}
		}
	}
	for _, it := range p.Par.Items {
		for _, f := range it.Fns {
			n := len(j.byFn[f.ID])
			if n > 1 {
				j.add(dp, "parallel task %d was called %d times", f.ID, n)
			}
			if n == 0 && !j.cancelled && (!ref.Fails || sc.COE) {
				j.add(dp, "parallel task %d was never called", f.ID)
			}
		}
	}
	for endID := range ref.Ends {
		n := len(j.byFn[endID])
		if n == 0 && !j.cancelled && !ref.Fails {
			j.add(dp, "End hook %d was never called although nothing failed", endID)
		}
	}

	failed := x.Ret != nil
	if j.cancelled {
		j.judgeCancel(map[int][]int{})
		return
	}
	if !ref.Fails {
		if failed {
			j.add(dp, "Parallel returned %q although nothing failed", short(x.Ret.Error()))
		}
		return
	}
	if !failed {
		j.add(dp, "Parallel returned nil although %d calls failed", len(ref.FailingFns))
		return
	}
	if sc.COE {
		entries := multierr.Errors(x.Ret)
		used := map[*rt.CallEv]bool{}
		for _, e := range entries {
			if strings.Contains(e.Error(), "job invalid") {
				j.add(uniq("C08"), "the returned error exposes the scheduler's internal sentinel: %q", short(e.Error()))
				continue
			}
			c := j.matchFailure(e, used)
			if c == nil {
				j.add(uniq(append(dp, "C08")...), "an entry of the returned error, %q, is not the error (or PanicError) of a distinct failed call", short(e.Error()))
				continue
			}
			used[c] = true
		}
		nfail := 0
		for _, cs := range j.byFn {
			for _, c := range cs {
				if c.End == prog.OErr || c.End == prog.OPanic {
					nfail++
					if !used[c] {
						j.add(uniq(append(dp, "C08")...), "the failure of function %d %s (%s) is missing from the returned error (%d entries)", c.Fn, tokens(c.Args), prog.OName(c.End), len(entries))
					}
				}
			}
		}
	} else {
		if c := j.matchFailure(x.Ret, nil); c == nil {
			j.add(uniq(append(dp, "C07")...), "the returned error %q is not the error (or PanicError) of any call that actually failed", short(x.Ret.Error()))
		}
		if p.Par.COE && len(multierr.Errors(x.Ret)) > 1 {
			j.add(uniq("C08"), "ContinueOnError(false) must behave fail-fast, but the returned error combines %d failures", len(multierr.Errors(x.Ret)))
		}
	}
}

// judgeArgs: C15.
func (j *judgeCtx) judgeArgs() {
	if !j.p.Wrap {
		return
	}
	x := j.x
	args := x.Args()
	sort.SliceStable(args, func(a, b int) bool { return args[a].T < args[b].T })
	count := map[int]int{}
	var firstCall int64
	for _, c := range j.calls {
		if firstCall == 0 || c.T0 < firstCall {
			firstCall = c.T0
		}
	}
	for i, a := range args {
		count[a.Site]++
		if i > 0 && args[i-1].Site > a.Site {
			j.add(uniq("C15"), "argument expression at site %d was evaluated after the one at site %d: not source order", a.Site, args[i-1].Site)
		}
		if a.Gor != x.CallerGor {
			j.add(uniq("C15"), "argument expression at site %d was evaluated on goroutine %d, the directive was called on goroutine %d", a.Site, a.Gor, x.CallerGor)
		}
		if firstCall != 0 && a.T > firstCall {
			j.add(uniq("C15"), "argument expression at site %d was evaluated at t=%d, after the first user function had started (t=%d)", a.Site, a.T, firstCall)
		}
	}
	for s := 0; s < j.p.NumSites; s++ {
		if count[s] != 1 {
			j.add(uniq("C15"), "argument expression at site %d was evaluated %d times in one execution of the directive", s, count[s])
		}
	}
}

// judgeEmitters: C18.
func (j *judgeCtx) judgeEmitters() {
	p, x := j.p, j.x
	var shape []int
	instrDir := false
	dirKind := "Flow"
	if p.Flow != nil {
		shape, instrDir = p.Flow.Emitters, p.Flow.Instrument
	} else {
		shape, instrDir = p.Par.Emitters, p.Par.Instrument
		dirKind = "Parallel"
	}
	nEm := 0
	for _, k := range shape {
		nEm += k
	}
	if nEm == 0 {
		return
	}
	evs := x.Emits()
	sort.SliceStable(evs, func(a, b int) bool { return evs[a].T < evs[b].T })
	per := make([][]rt.EmitEv, nEm)
	for _, e := range evs {
		if e.Em >= 0 && e.Em < nEm {
			per[e.Em] = append(per[e.Em], e)
		}
	}
	c18 := uniq("C18")
	payEq := func(a, b interface{}) bool {
		if a == nil || b == nil {
			return a == nil && b == nil
		}
		ta, tb := reflect.TypeOf(a), reflect.TypeOf(b)
		if ta != tb {
			return false
		}
		if ta.Comparable() {
			return a == b
		}
		return reflect.DeepEqual(a, b)
	}
	// which task functions are explicitly instrumented, and were they invoked
	type tinfo struct {
		fn       int
		fallback bool
	}
	named := map[string]tinfo{}
	allInstr := false
	if p.Flow != nil {
		for _, t := range p.Flow.Tasks {
			if t.Instrument {
				named[fmt.Sprintf("f%d", t.Fn.ID)] = tinfo{t.Fn.ID, t.Fallback}
			}
		}
		allInstr = p.AutoInstrument && p.Flow.Instrument
	} else {
		for _, it := range p.Par.Items {
			if it.Kind == "task" && it.Instrument {
				named[fmt.Sprintf("f%d", it.Fns[0].ID)] = tinfo{it.Fns[0].ID, false}
			}
		}
	}
	for em := 0; em < nEm; em++ {
		list := per[em]
		cnt := map[string]int{}
		for _, e := range list {
			cnt[e.M+"|"+e.Name]++
		}
		if instrDir {
			name := "flow"
			if dirKind == "Parallel" {
				name = "par"
			}
			ns, ne, nd := cnt[dirKind+"Success|"+name], cnt[dirKind+"Error|"+name], cnt[dirKind+"Done|"+name]
			if ns+ne != 1 {
				j.add(c18, "emitter %d received %d %sSuccess and %d %sError events in one execution", em, ns, dirKind, ne, dirKind)
			}
			if x.Ret == nil && ne > 0 {
				j.add(c18, "emitter %d received %sError although the directive returned nil", em, dirKind)
			}
			if x.Ret != nil && ns > 0 {
				j.add(c18, "emitter %d received %sSuccess although the directive returned an error", em, dirKind)
			}
			if nd != 1 {
				j.add(c18, "emitter %d received %d %sDone events in one execution", em, nd, dirKind)
			}
			var tOutcome, tDone int64
			for _, e := range list {
				switch e.M {
				case dirKind + "Error":
					tOutcome = e.T
					if err, _ := e.Pay.(error); err == nil || !sameErr(err, x.Ret) {
						j.add(c18, "emitter %d: %sError carried %v, the directive returned %v", em, dirKind, e.Pay, x.Ret)
					}
				case dirKind + "Success":
					tOutcome = e.T
				case dirKind + "Done":
					tDone = e.T
				}
			}
			if tDone != 0 && tOutcome != 0 && tDone < tOutcome {
				j.add(c18, "emitter %d received %sDone before the %sSuccess/%sError event", em, dirKind, dirKind, dirKind)
			}
		}
		invokedTasks := 0
		for name, ti := range named {
			cs := j.byFn[ti.fn]
			outcomes := cnt["TaskSuccess|"+name] + cnt["TaskError|"+name] + cnt["TaskErrorRecovered|"+name] + cnt["TaskPanic|"+name] + cnt["TaskPanicRecovered|"+name]
			if len(cs) == 0 {
				if x.Ret == nil && cnt["TaskSkipped|"+name] != 1 {
					j.add(c18, "emitter %d: instrumented task %s was not invoked in a directive that returned nil, and received %d TaskSkipped events", em, name, cnt["TaskSkipped|"+name])
				}
				continue
			}
			invokedTasks++
			c := cs[0]
			if c.T1 == 0 {
				continue
			}
			want := ""
			var pay interface{}
			switch c.End {
			case prog.OOK, prog.OCancelOK:
				want = "TaskSuccess"
			case prog.OErr:
				want, pay = "TaskError", c.Err
				if ti.fallback {
					want = "TaskErrorRecovered"
				}
			case prog.OPanic:
				want, pay = "TaskPanic", c.PanicV
				if ti.fallback {
					want = "TaskPanicRecovered"
				}
			default:
				continue // goexit: nothing is stated
			}
			if outcomes != 1 || cnt[want+"|"+name] != 1 {
				j.add(c18, "emitter %d: task %s was invoked once and ended with %s; expected exactly one %s event, got Success=%d Error=%d ErrorRecovered=%d Panic=%d PanicRecovered=%d",
					em, name, prog.OName(c.End), want, cnt["TaskSuccess|"+name], cnt["TaskError|"+name], cnt["TaskErrorRecovered|"+name], cnt["TaskPanic|"+name], cnt["TaskPanicRecovered|"+name])
			} else if pay != nil {
				for _, e := range list {
					if e.M == want && e.Name == name {
						ok := false
						if want == "TaskPanic" || want == "TaskPanicRecovered" {
							ok = panicValueEq(e.Pay, pay)
						} else {
							ok = payEq(e.Pay, pay)
						}
						if !ok {
							j.add(c18, "emitter %d: %s of task %s carried %v, the task produced %v", em, want, name, e.Pay, pay)
						}
					}
				}
			}
			if cnt["TaskDone|"+name] != 1 {
				j.add(c18, "emitter %d: task %s was invoked once and received %d TaskDone events", em, name, cnt["TaskDone|"+name])
			}
		}
		if allInstr {
			// -auto-instrument: cff chooses which further tasks are instrumented
			// and their names; the statement fixes neither. Only the bounds
			// are judged: no task reports TaskDone twice, and there are at
			// most as many TaskDone events as invoked tasks.
			inv := 0
			for _, t := range p.Flow.Tasks {
				if len(j.byFn[t.Fn.ID]) > 0 && j.byFn[t.Fn.ID][0].T1 != 0 {
					inv++
				}
			}
			done := 0
			for k, n := range cnt {
				if strings.HasPrefix(k, "TaskDone|") {
					done += n
					// (the inferred names come from the announced positions: with
					// //line comments two tasks may get one name)
					if n > 1 && !p.LineDirs {
						j.add(c18, "emitter %d: %d TaskDone events for task %q in one execution", em, n, strings.TrimPrefix(k, "TaskDone|"))
					}
				}
			}
			if done > inv {
				j.add(c18, "emitter %d: %d tasks were invoked (auto-instrumented flow) but %d TaskDone events were received", em, inv, done)
			}
		}
		// every emitter receives what emitter 0 receives
		if em > 0 {
			a, b := multiset(per[0]), multiset(list)
			if a != b {
				j.add(c18, "emitters 0 and %d of the same directive received different events: %s vs %s", em, a, b)
			}
		}
	}
}

// sameErr: the very same error value (== where the dynamic type is comparable,
// deep equality for error values of non-comparable type such as a slice).
func sameErr(a, b error) bool {
	if a == nil || b == nil {
		return a == nil && b == nil
	}
	ta, tb := reflect.TypeOf(a), reflect.TypeOf(b)
	if ta != tb {
		return false
	}
	if ta.Comparable() {
		return a == b
	}
	return reflect.DeepEqual(a, b)
}

func multiset(evs []rt.EmitEv) string {
	var s []string
	for _, e := range evs {
		pay := ""
		switch v := e.Pay.(type) {
		case nil:
		case error:
			pay = fmt.Sprintf("%p", v)
			if _, ok := v.(*rt.CallErr); !ok {
				pay = short(v.Error())
				if len(pay) > 40 {
					pay = pay[:40]
				}
			}
		default:
			pay = short(fmt.Sprint(v))
		}
		s = append(s, e.M+":"+e.Name+":"+pay)
	}
	sort.Strings(s)
	return strings.Join(s, ",")
}
