//go:build !verif

package rt

// SetPerturb is a no-op without the verif hooks.
func SetPerturb(level int) {}

// SetOnBigEnqueue is a no-op without the verif hooks.
func SetOnBigEnqueue(f func()) {}
