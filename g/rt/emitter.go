package rt

import (
	"context"
	"fmt"
	"runtime"
	"sync/atomic"
	"time"

	"go.uber.org/cff"
)

// recEmitter is emitter number em of an execution; it records every event.
type recEmitter struct {
	x  *Exec
	em int
}

// Emitter returns the i-th recording emitter of the execution.
func (x *Exec) Emitter(i int) cff.Emitter { return &recEmitter{x: x, em: i} }

func (e *recEmitter) log(m, name string, pay interface{}) {
	x := e.x
	if x.Quiet {
		return
	}
	ev := EmitEv{Em: e.em, M: m, Name: name, Pay: pay, T: stamp()}
	x.mu.Lock()
	x.emits = append(x.emits, ev)
	x.mu.Unlock()
}

type taskEm struct {
	e    *recEmitter
	name string
}

func (e *recEmitter) TaskInit(ti *cff.TaskInfo, di *cff.DirectiveInfo) cff.TaskEmitter {
	e.log("TaskInit", ti.Name, di.Name)
	return &taskEm{e, ti.Name}
}
func (t *taskEm) TaskSuccess(context.Context)            { t.e.log("TaskSuccess", t.name, nil) }
func (t *taskEm) TaskError(_ context.Context, err error) { t.e.log("TaskError", t.name, err) }
func (t *taskEm) TaskErrorRecovered(_ context.Context, err error) {
	t.e.log("TaskErrorRecovered", t.name, err)
}
func (t *taskEm) TaskSkipped(_ context.Context, err error)   { t.e.log("TaskSkipped", t.name, err) }
func (t *taskEm) TaskPanic(_ context.Context, v interface{}) { t.e.log("TaskPanic", t.name, v) }
func (t *taskEm) TaskPanicRecovered(_ context.Context, v interface{}) {
	t.e.log("TaskPanicRecovered", t.name, v)
}
func (t *taskEm) TaskDone(context.Context, time.Duration) { t.e.log("TaskDone", t.name, nil) }

type flowEm struct {
	e    *recEmitter
	name string
}

func (e *recEmitter) FlowInit(fi *cff.FlowInfo) cff.FlowEmitter {
	e.log("FlowInit", fi.Name, nil)
	return &flowEm{e, fi.Name}
}
func (f *flowEm) FlowSuccess(context.Context)             { f.e.log("FlowSuccess", f.name, nil) }
func (f *flowEm) FlowError(_ context.Context, err error)  { f.e.log("FlowError", f.name, err) }
func (f *flowEm) FlowDone(context.Context, time.Duration) { f.e.log("FlowDone", f.name, nil) }

type parEm struct {
	e    *recEmitter
	name string
}

func (e *recEmitter) ParallelInit(pi *cff.ParallelInfo) cff.ParallelEmitter {
	e.log("ParallelInit", pi.Name, nil)
	return &parEm{e, pi.Name}
}
func (p *parEm) ParallelSuccess(context.Context)             { p.e.log("ParallelSuccess", p.name, nil) }
func (p *parEm) ParallelError(_ context.Context, err error)  { p.e.log("ParallelError", p.name, err) }
func (p *parEm) ParallelDone(context.Context, time.Duration) { p.e.log("ParallelDone", p.name, nil) }

type schedEm struct {
	e        *recEmitter
	inflight atomic.Int32
}

func (e *recEmitter) SchedulerInit(*cff.SchedulerInfo) cff.SchedulerEmitter { return &schedEm{e: e} }

func (s *schedEm) EmitScheduler(st cff.SchedulerState) {
	x := s.e.x
	if x.Quiet {
		return
	}
	stamp()
	x.schedStates.Add(1)
	if x.Sc.EmitGoexit {
		x.EmitGoexits.Add(1)
		runtime.Goexit()
	}
	if n := s.inflight.Add(1); n > 1 {
		x.EmitOverlaps.Add(1)
	}
	defer s.inflight.Add(-1)
	if x.Sc.SlowEmit {
		time.Sleep(150 * time.Millisecond)
	}
	exec := st.Pending - st.Ready - st.Waiting
	bad := ""
	switch {
	case st.Pending < 0 || st.Ready < 0 || st.Waiting < 0 || st.IdleWorkers < 0:
		bad = "negative count"
	case exec < 0 || exec > st.Concurrency:
		bad = "executing = Pending-Ready-Waiting out of [0, Concurrency]"
	case st.IdleWorkers != st.Concurrency-exec:
		bad = "IdleWorkers != Concurrency - executing"
	case x.Limit > 0 && st.Concurrency != x.Limit:
		bad = fmt.Sprintf("Concurrency != the directive's limit %d", x.Limit)
	case x.MaxJobs > 0 && st.Pending > x.MaxJobs:
		bad = fmt.Sprintf("more pending jobs than the directive has (%d)", x.MaxJobs)
	}
	if bad != "" {
		if x.BadStates.Add(1) == 1 {
			x.mu.Lock()
			x.FirstBadState = fmt.Sprintf("%+v: %s", st, bad)
			x.mu.Unlock()
		}
	}
	if x.Sc.GateOpen == "report" {
		// The held function is released by the first report, and the report
		// lingers: with synchronous delivery the directive cannot return before
		// EmitScheduler has.
		x.OpenGate()
		spinFor(2 * time.Millisecond)
	}
	t1 := stamp()
	for {
		m := x.LastStateExit.Load()
		if t1 <= m || x.LastStateExit.CompareAndSwap(m, t1) {
			break
		}
	}
}

// SchedStates is the number of scheduler state reports received.
func (x *Exec) SchedStates() int64 { return x.schedStates.Load() }
