//go:build verif

package rt

import (
	"math/rand/v2"
	"runtime"
	"sync/atomic"
	"time"

	"go.uber.org/cff/scheduler"
)

// Perturbation of the scheduler under generated code, through the same
// build-tagged hook Engine S uses. The hook shares nothing but one atomic level
// and draws from the runtime's per-thread random source, so it adds no
// happens-before edge a race build could mistake for synchronisation.
//
//	level 0: off
//	level 1: light, everywhere
//	level 2: the loop is slowed (results and enqueues pile up)
//	level 3: workers are slowed between receiving a job and running it, and before posting
var perturbLevel atomic.Int32

// SetPerturb selects the perturbation profile for the executions that follow.
func SetPerturb(level int) { perturbLevel.Store(int32(level)) }

// onBigEnqueue, when set, is called (once) when the scheduler loop accepts a
// job with at least 65536 dependencies.
var onBigEnqueue atomic.Pointer[func()]

// SetOnBigEnqueue registers f (nil to clear).
func SetOnBigEnqueue(f func()) {
	if f == nil {
		onBigEnqueue.Store(nil)
		return
	}
	onBigEnqueue.Store(&f)
}

func init() {
	scheduler.VerifHook = func(p int, key uintptr, s *scheduler.Scheduler, j *scheduler.ScheduledJob, a, b, c int) {
		if p == scheduler.VerifEnq && j != nil {
			if f := onBigEnqueue.Load(); f != nil && len(scheduler.VerifDeps(j)) >= 65536 {
				(*f)()
			}
		}
		lvl := perturbLevel.Load()
		if lvl == 0 {
			return
		}
		w := uint64(40)
		switch {
		case lvl == 2 && p == scheduler.VerifLoopTop:
			w = 400
		case lvl == 3 && (p == scheduler.VerifWorkerGot || p == scheduler.VerifWorkerPost):
			w = 400
		}
		h := rand.Uint64()
		if h%1000 >= w {
			return
		}
		h >>= 10
		if h%100 < 60 {
			for k := 1 + int((h>>8)%4); k > 0; k-- {
				runtime.Gosched()
			}
			return
		}
		d := time.Duration(1+(h>>8)%150) * time.Microsecond
		for t0 := time.Now(); time.Since(t0) < d; {
			runtime.Gosched()
		}
	}
}
