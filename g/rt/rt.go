// Package rt is the runtime the generated programs are written against: stubs
// call (*Exec).Call, which records the call, applies the scenario (outcome,
// delay, gate) and returns provenance-hash tokens; argument expressions may be
// wrapped in A; emitters come from (*Exec).Emitter.
package rt

import (
	"context"
	"encoding/json"
	"fmt"
	"reflect"
	"runtime"
	"strconv"
	"strings"
	"sync"
	"sync/atomic"
	"time"

	"go.uber.org/cff"
	"vg/prog"
)

// ---------------------------------------------------------------------------
// Registry.

type Entry struct {
	Name string
	Prog *prog.Program
	Run  func(*Exec) error
}

var (
	regMu   sync.Mutex
	entries = map[string]*Entry{}
)

func Register(name, desc string, run func(*Exec) error) {
	p := &prog.Program{}
	if err := json.Unmarshal([]byte(desc), p); err != nil {
		panic("rt.Register " + name + ": " + err.Error())
	}
	regMu.Lock()
	entries[name] = &Entry{Name: name, Prog: p, Run: run}
	regMu.Unlock()
}

func Lookup(name string) *Entry {
	regMu.Lock()
	defer regMu.Unlock()
	return entries[name]
}

func Names() []string {
	regMu.Lock()
	defer regMu.Unlock()
	var out []string
	for n := range entries {
		out = append(out, n)
	}
	for i := 1; i < len(out); i++ {
		for j := i; j > 0 && out[j] < out[j-1]; j-- {
			out[j], out[j-1] = out[j-1], out[j]
		}
	}
	return out
}

// ---------------------------------------------------------------------------
// Clock and progress (process-wide).

var (
	Clock    atomic.Int64
	Progress atomic.Int64
)

func stamp() int64 {
	Progress.Add(1)
	return Clock.Add(1)
}

// ---------------------------------------------------------------------------
// Events.

type CallEv struct {
	Fn      int
	Args    []uint64
	T0, T1  int64 // start / end stamps (T1 == 0: still running)
	End     int   // how the call ended: prog.O* kind actually applied
	Outs    []uint64
	Err     error
	PanicV  interface{}
	CtxSeen int // 0 no ctx param, 1 the directive's context, 2 another context, 3 the poisoned context of a Bare program
	CtxDone bool
	Ctx     context.Context // the context the function was handed (kept so that its state can be read at quiescence)
}

type ArgEv struct {
	Site int
	T    int64
	Gor  int
}

type EmitEv struct {
	Em   int
	M    string // FlowSuccess, TaskError, ...
	Name string
	Pay  interface{}
	T    int64
}

// Exec is one execution of one directive.
type Exec struct {
	ID    uint64
	Prog  *prog.Program
	Sc    *prog.Scenario
	Quiet bool

	ctx      context.Context
	cancelFn context.CancelFunc

	mu    sync.Mutex
	calls []*CallEv
	args  []ArgEv
	emits []EmitEv

	Results   []uint64
	resultSet []bool

	Inflight atomic.Int64
	HWM      atomic.Int64

	CancelReq, CancelDone atomic.Int64
	CallerGor             int
	RunStart, RunEnd      int64
	Ret                   error
	Escaped               interface{} // a panic that reached the caller of the directive
	Returned              atomic.Bool

	gate        chan struct{}
	gateOnce    sync.Once
	reached     chan struct{}
	reachOnce   sync.Once
	ReachTgt    int64
	barrierArr  atomic.Int64
	barrierCh   chan struct{}
	schedStates atomic.Int64
	BadStates   atomic.Int64
	// Scheduler state reports received through cff.SchedulerEmitter.
	FirstBadState string
	LastStateExit atomic.Int64          // stamp taken when the latest EmitScheduler call returned
	CensusSched   atomic.Int64          // goroutines in scheduler code while the limit was saturated (wide scenarios)
	Limit         int                   // the directive's concurrency limit (set by the runner)
	MaxJobs       int                   // upper bound on the jobs the directive can submit (set by the runner)
	NestEntry     interface{}           // nested executions: the *Entry of the nested program
	startCh       map[int]chan struct{} // closed when the function is first entered
	startOnce     map[int]*sync.Once

	// Bare programs: poison runs once, when the first user function is entered.
	poison           func()
	poisonOnce       sync.Once
	Poisoned         atomic.Bool
	EmitOverlaps     atomic.Int64 // scheduler state reports that arrived while another one was still being delivered to the same emitter
	EmitGoexits      atomic.Int64 // state reports at which the emitter killed its goroutine
	paramSeq         atomic.Int64
	ParamsOutOfOrder atomic.Int64  // Params values asked for out of their order (or again)
	MidPoisons       atomic.Int64  // argument calls of a BareMix program that ran (each overwrites the argument variables before it)
	dummies          []interface{} // pointers handed out by PoisonPtr
	late             []string
	seen             [][2]uint64
	children         []*Exec
}

// SetPoison registers the assignments that overwrite the argument variables of
// a Bare program.
func (x *Exec) SetPoison(f func()) {
	if !x.Quiet {
		if prev := x.poison; prev != nil {
			x.poison = func() { prev(); f() }
		} else {
			x.poison = f
		}
	}
}

func (x *Exec) runPoison() {
	if x.poison != nil {
		x.poisonOnce.Do(func() {
			x.poison()
			x.Poisoned.Store(true)
		})
	}
}

// Seen records the value a function literal read from a variable of the
// enclosing function (fn: the literal's function id).
func (x *Exec) Seen(fn int, tok uint64) {
	if x.Quiet {
		return
	}
	x.mu.Lock()
	x.seen = append(x.seen, [2]uint64{uint64(fn), tok})
	x.mu.Unlock()
}

func (x *Exec) SeenValues() [][2]uint64 {
	x.mu.Lock()
	defer x.mu.Unlock()
	return append([][2]uint64(nil), x.seen...)
}

// NoteLate records evidence, gathered by the program itself after the
// directive returned, that an argument was evaluated late.
func (x *Exec) NoteLate(msg string) {
	x.mu.Lock()
	x.late = append(x.late, msg)
	x.mu.Unlock()
}

func (x *Exec) LateNotes() []string {
	x.mu.Lock()
	defer x.mu.Unlock()
	return append([]string(nil), x.late...)
}

// Poison returns the poison token of an argument site.
func (x *Exec) Poison(site int) uint64 { return prog.PoisonTok(x.ID, site) }

// PoisonColl is a one-element collection holding a poison token.
func (x *Exec) PoisonColl(site int) []uint64 { return []uint64{prog.PoisonTok(x.ID, site)} }

// PoisonEmitter is the number of the emitter that poisoned WithEmitter
// arguments hold.
const PoisonEmitter = 99

type poisonKey struct{}

// PoisonCtx is the directive's context marked as poisoned.
func PoisonCtx(x *Exec) context.Context { return context.WithValue(x.ctx, poisonKey{}, true) }

// PoisonPtr returns a pointer to a fresh variable of p's element type; a
// result stored through it is seen by DummiesWritten.
func PoisonPtr[T any](x *Exec, p *T) *T {
	d := new(T)
	x.mu.Lock()
	x.dummies = append(x.dummies, d)
	x.mu.Unlock()
	return d
}

// DummiesWritten reports how many poisoned Results pointers were stored through.
func (x *Exec) DummiesWritten() int {
	x.mu.Lock()
	defer x.mu.Unlock()
	n := 0
	for _, d := range x.dummies {
		if !reflect.ValueOf(d).Elem().IsZero() {
			n++
		}
	}
	return n
}

// Started returns a channel that is closed when function fn is first entered
// (only for functions listed in the scenario's WatchFns).
func (x *Exec) Started(fn int) <-chan struct{} { return x.startCh[fn] }

type execKey struct{}

var (
	execSeq atomic.Uint64
	execs   sync.Map // id -> *Exec
	cur     atomic.Pointer[Exec]
)

type userCtx struct {
	parent context.Context
	mu     sync.Mutex
	done   chan struct{}
	err    error
}

func (c *userCtx) Deadline() (time.Time, bool) { return time.Time{}, false }
func (c *userCtx) Done() <-chan struct{}       { return c.done }
func (c *userCtx) Value(k any) any             { return c.parent.Value(k) }
func (c *userCtx) Err() error {
	c.mu.Lock()
	defer c.mu.Unlock()
	return c.err
}
func (c *userCtx) cancel() {
	c.mu.Lock()
	defer c.mu.Unlock()
	if c.err == nil {
		c.err = context.Canceled
		close(c.done)
	}
}

// NewExec prepares an execution. The scenario must have been built for this
// exec id (tokens carry it): use NextID first.
func NextID() uint64 {
	for {
		if id := execSeq.Add(1) & 0xFFFFF; id != 0 {
			return id
		}
	}
}

func NewExec(id uint64, p *prog.Program, sc *prog.Scenario, quiet bool) *Exec {
	x := &Exec{ID: id, Prog: p, Sc: sc, Quiet: quiet}
	base := context.WithValue(context.Background(), execKey{}, x)
	x.ctx, x.cancelFn = context.WithCancel(base)
	if sc.UserCtx {
		// a context implemented outside the standard library, with a Done channel
		// of its own: contexts derived from it are served by a goroutine of the
		// context package until they are cancelled
		u := &userCtx{parent: base, done: make(chan struct{})}
		x.ctx, x.cancelFn = u, u.cancel
	}
	if sc.FarDeadline {
		// a context with a deadline (far away) and a parent that can be cancelled
		var c2 context.CancelFunc
		parent, cancel := x.ctx, x.cancelFn
		x.ctx, c2 = context.WithDeadline(parent, time.Now().Add(time.Hour))
		x.cancelFn = func() { cancel(); c2() }
	}
	x.Results = make([]uint64, len(sc.Sentinels))
	x.resultSet = make([]bool, len(sc.Sentinels))
	x.gate = make(chan struct{})
	x.reached = make(chan struct{})
	x.barrierCh = make(chan struct{})
	x.ReachTgt = int64(sc.ReachTgt)
	x.startCh = map[int]chan struct{}{}
	x.startOnce = map[int]*sync.Once{}
	for _, fn := range sc.WatchFns {
		x.startCh[fn] = make(chan struct{})
		x.startOnce[fn] = new(sync.Once)
	}
	execs.Store(id, x)
	return x
}

// Close retires the execution. Its id stays known: a function of this
// execution that is somehow still called afterwards (a straggler) must never
// be booked on the execution that happens to be current by then.
func (x *Exec) Close() {
	execs.Delete(x.ID)
	closed.Store(x.ID, struct{}{})
}

var closed sync.Map // ids of retired executions

// orphan takes the calls of retired executions: no recorder, every outcome ok.
var orphan = &Exec{Quiet: true, Sc: &prog.Scenario{Out: map[int]prog.Outcome{}, ElemOut: map[int]map[uint64]prog.Outcome{}, FnInfo: map[int]prog.FnInfo{}}, gate: closedChan()}

func closedChan() chan struct{} { c := make(chan struct{}); close(c); return c }

// SetCurrent makes x the execution that functions without any handle find.
func SetCurrent(x *Exec) { cur.Store(x) }

// Find recovers the execution inside a top-level function: from the context,
// from any non-zero token, or (single execution at a time) from the global.
func Find(ctx context.Context, toks ...uint64) *Exec {
	if ctx != nil {
		if x, ok := ctx.Value(execKey{}).(*Exec); ok {
			return x
		}
	}
	for _, t := range toks {
		if t != 0 {
			if v, ok := execs.Load(t >> 44); ok {
				return v.(*Exec)
			}
			if _, was := closed.Load(t >> 44); was {
				return orphan
			}
		}
	}
	return cur.Load()
}

func (x *Exec) Ctx() context.Context {
	return x.ctx
}

// Param is the i-th Params value. The arguments of a directive are evaluated
// once, in source order: the k-th call must ask for value k. Any other order
// (or a second evaluation) yields a different token, which the functions that
// consume the value then report.
func (x *Exec) Param(i int) uint64 {
	if x.Quiet || (x.Prog != nil && x.Prog.BareMix > 0) {
		// (BareMix: some Params values are bound to variables before the
		// directive, others are calls inside it)
		return x.Sc.Params[i]
	}
	if n := int(x.paramSeq.Add(1)) - 1; n != i {
		x.ParamsOutOfOrder.Add(1)
		return x.Sc.Params[i] ^ 0x5A5A0
	}
	return x.Sc.Params[i]
}
func (x *Exec) Sentinel(i int) uint64 { return x.Sc.Sentinels[i] }
func (x *Exec) Conc() int             { return x.Sc.Conc }
func (x *Exec) COE() bool             { return x.Sc.COE }
func (x *Exec) FB(fn, i int) uint64   { return prog.FallbackTok(x.ID, fn, i) }
func (x *Exec) Coll(slot int) []uint64 {
	if slot >= len(x.Sc.Colls) {
		return nil
	}
	return x.Sc.Colls[slot]
}

func (x *Exec) Result(i int, v uint64) {
	x.Results[i] = v
	x.resultSet[i] = true
}

func (x *Exec) DoCancel() {
	if x.Quiet {
		x.cancelFn()
		return
	}
	x.CancelReq.CompareAndSwap(0, stamp())
	x.cancelFn()
	x.CancelDone.CompareAndSwap(0, stamp())
}

func (x *Exec) OpenGate() { x.gateOnce.Do(func() { close(x.gate) }) }

// Reached is closed when ReachTgt calls are in flight at once.
func (x *Exec) Reached() <-chan struct{} { return x.reached }

// ---------------------------------------------------------------------------
// Ret is what a stub gets back.

type Ret struct {
	outs []uint64
	Err  error
	b    bool
}

func (r *Ret) Out(i int) uint64 {
	if r == nil || i >= len(r.outs) {
		return 0
	}
	return r.outs[i]
}

func (r *Ret) Bool() bool { return r != nil && r.b }

// CallErr is the unique error value of one call.
type CallErr struct {
	Exec uint64
	Fn   int
	Key  uint64
}

func (e *CallErr) Error() string {
	return fmt.Sprintf("exec %d: function %d (key %d) failed", e.Exec, e.Fn, e.Key)
}

// FieldErrors is an error whose dynamic type is a slice: comparing two such
// values with == panics.
type FieldErrors []string

func (f FieldErrors) Error() string { return strings.Join(f, "; ") }

// CallErrVal is a comparable error of struct (not pointer) type.
type CallErrVal struct {
	Exec uint64
	Fn   int
	Key  uint64
}

func (e CallErrVal) Error() string {
	return fmt.Sprintf("exec %d: function %d (key %d) failed [value]", e.Exec, e.Fn, e.Key)
}

// CtxLikeErr unwraps to context.DeadlineExceeded although the directive's
// context is live.
type CtxLikeErr struct {
	Exec uint64
	Fn   int
	Key  uint64
}

func (e *CtxLikeErr) Error() string {
	return fmt.Sprintf("exec %d: function %d (key %d): backend call: %v", e.Exec, e.Fn, e.Key, context.DeadlineExceeded)
}
func (e *CtxLikeErr) Unwrap() error { return context.DeadlineExceeded }

// ErrValue builds the error a failing call returns: unique per (exec, fn, key).
func ErrValue(exec uint64, fn int, key uint64, kind int) error {
	switch kind {
	case 1:
		return CallErrVal{Exec: exec, Fn: fn, Key: key}
	case 2:
		return FieldErrors{fmt.Sprintf("exec %d", exec), fmt.Sprintf("fn %d", fn), fmt.Sprintf("key %d", key), "returned"}
	case 3:
		return fmt.Errorf("function %d of exec %d failed: %w", fn, exec, &CallErr{Exec: exec, Fn: fn, Key: key})
	case 4:
		// what a function returns that bounds its own work with a timeout
		return &CtxLikeErr{Exec: exec, Fn: fn, Key: key}
	case 5:
		return fmt.Errorf("exec %d: function %d (key %d): lookup: %w", exec, fn, key, context.Canceled)
	case 6:
		// the bare sentinels: what a function returns that hands on the Err() of
		// a context of its own (the directive's context is untouched by it)
		return context.Canceled
	case 7:
		return context.DeadlineExceeded
	}
	return &CallErr{Exec: exec, Fn: fn, Key: key}
}

// PanicStruct is the custom panic value kind.
type PanicStruct struct {
	Fn  int
	Key uint64
}

func spinFor(d time.Duration) {
	t0 := time.Now()
	for time.Since(t0) < d {
		runtime.Gosched()
	}
}

func delay(o prog.Outcome) {
	switch o.Delay {
	case 1:
		for k := 0; k < o.DelayArg; k++ {
			runtime.Gosched()
		}
	case 2:
		spinFor(time.Duration(o.DelayArg) * time.Microsecond)
	}
}

// PanicValue builds the value a call panics with (kinds 0..3); kinds 4 and 5
// are genuine runtime errors raised by the code in Call.
func PanicValue(exec uint64, fn int, key uint64, kind int) interface{} {
	switch kind {
	case 0:
		return fmt.Sprintf("panic in function %d key %d exec %d", fn, key, exec)
	case 1:
		return &CallErr{Exec: exec, Fn: fn, Key: key}
	case 2:
		return PanicStruct{Fn: fn, Key: key}
	case 6:
		return []string{"panic", fmt.Sprint(exec), fmt.Sprint(fn), fmt.Sprint(key)} // not comparable
	case 7:
		return FieldErrors{fmt.Sprintf("exec %d", exec), fmt.Sprintf("fn %d", fn), fmt.Sprintf("key %d", key)} // an error of slice type
	case 8:
		return map[string]uint64{"exec": exec, "fn": uint64(fn), "key": key} // not comparable
	case 9:
		// what a function does that re-panics with the error of a directive it
		// ran itself: the value is a *cff.PanicError (of another panic)
		return &cff.PanicError{Value: fmt.Sprintf("inner panic of function %d key %d exec %d", fn, key, exec), Stacktrace: []byte("inner")}
	default:
		return 1000000 + fn
	}
}

// NestedRun, set by the runner, runs another program's directive inside the
// body of function fn of execution parent (outcome flag Nest).
var NestedRun func(parent *Exec, fn int)

// AddChild / Children: nested executions started from this execution's stubs.
func (x *Exec) AddChild(c *Exec) {
	x.mu.Lock()
	x.children = append(x.children, c)
	x.mu.Unlock()
}

func (x *Exec) Children() []*Exec {
	x.mu.Lock()
	defer x.mu.Unlock()
	return append([]*Exec(nil), x.children...)
}

// Call is the body of every stub.
func (x *Exec) Call(ctx context.Context, fn int, args ...uint64) *Ret {
	if x == nil {
		panic("rt: stub could not find its execution")
	}
	sc := x.Sc
	f := sc.FnInfo[fn]
	var key uint64
	if f.Elem && len(args) > 0 {
		key = args[0]
		if f.NoIndex {
			key = args[0] // the element token identifies the call
		}
	}
	o := sc.OutcomeOf(fn, key)
	if x.Quiet {
		return x.quietCall(ctx, fn, key, f, o, args)
	}
	ev := &CallEv{Fn: fn, Args: append([]uint64(nil), args...)}
	x.runPoison()
	if ctx != nil {
		if v, ok := ctx.Value(execKey{}).(*Exec); ok && v == x {
			ev.CtxSeen = 1
		} else {
			ev.CtxSeen = 2
		}
		if ctx.Value(poisonKey{}) != nil {
			ev.CtxSeen = 3
		}
		ev.CtxDone = ctx.Err() != nil
		ev.Ctx = ctx
	}
	ev.T0 = stamp()
	cur := x.Inflight.Add(1)
	for {
		m := x.HWM.Load()
		if cur <= m || x.HWM.CompareAndSwap(m, cur) {
			break
		}
	}
	x.mu.Lock()
	x.calls = append(x.calls, ev)
	x.mu.Unlock()
	ev.End = prog.OGoexit // unless we leave normally or by panic
	defer func() {
		if r := recover(); r != nil {
			ev.End = prog.OPanic
			ev.PanicV = r
			x.Inflight.Add(-1)
			atomicStoreT1(ev)
			panic(r)
		}
		x.Inflight.Add(-1)
		atomicStoreT1(ev)
	}()
	if ch, ok := x.startCh[fn]; ok {
		x.startOnce[fn].Do(func() { close(ch) })
	}
	if x.ReachTgt > 0 && cur >= x.ReachTgt {
		x.reachOnce.Do(func() { close(x.reached) })
	}
	if o.Bar {
		if x.barrierArr.Add(1) == int64(sc.BarrierN) {
			close(x.barrierCh)
		}
		<-x.barrierCh
	}
	if o.Gate {
		<-x.gate
	}
	delay(o)
	if o.Nest && NestedRun != nil {
		NestedRun(x, fn)
	}
	ret := &Ret{}
	switch o.Kind {
	case prog.OOK, prog.OCancelOK:
		if o.Kind == prog.OCancelOK {
			x.DoCancel()
		}
		if f.Pred {
			ret.b = true
		}
		for i := 0; i < f.NOut; i++ {
			ret.outs = append(ret.outs, prog.H(x.ID, fn, i, args))
		}
		ev.Outs = ret.outs
		ev.End = o.Kind
	case prog.OFalse:
		ev.End = prog.OFalse
	case prog.OErr:
		ret.Err = ErrValue(x.ID, fn, key, o.ErrKind)
		ev.Err = ret.Err
		ev.End = prog.OErr
	case prog.OPanic:
		switch o.PanicKind {
		case 4:
			var m map[string]int
			m["x"] = fn // runtime error: assignment to entry in nil map
		case 5:
			s := make([]int, 1)
			_ = s[fn+len(args)+1] // runtime error: index out of range
		default:
			panic(PanicValue(x.ID, fn, key, o.PanicKind))
		}
	case prog.OGoexit:
		runtime.Goexit()
	}
	return ret
}

func atomicStoreT1(ev *CallEv) {
	atomic.StoreInt64(&ev.T1, stamp())
}

// quietCall: race builds. No recorder, no atomics: the only synchronisation
// between stubs is whatever the generated code and the scheduler provide.
func (x *Exec) quietCall(ctx context.Context, fn int, key uint64, f prog.FnInfo, o prog.Outcome, args []uint64) *Ret {
	if o.Gate {
		<-x.gate
	}
	delay(o)
	if o.Nest && NestedRun != nil {
		NestedRun(x, fn)
	}
	ret := &Ret{}
	switch o.Kind {
	case prog.OOK, prog.OCancelOK:
		if o.Kind == prog.OCancelOK {
			x.cancelFn()
		}
		if f.Pred {
			ret.b = true
		}
		for i := 0; i < f.NOut; i++ {
			ret.outs = append(ret.outs, prog.H(x.ID, fn, i, args))
		}
	case prog.OErr:
		ret.Err = ErrValue(x.ID, fn, key, o.ErrKind)
	case prog.OPanic:
		panic(PanicValue(x.ID, fn, key, o.PanicKind))
	case prog.OGoexit:
		runtime.Goexit()
	}
	return ret
}

// Calls returns a snapshot of the call log.
func (x *Exec) Calls() []CallEv {
	x.mu.Lock()
	defer x.mu.Unlock()
	out := make([]CallEv, len(x.calls))
	for i, c := range x.calls {
		out[i] = *c
		out[i].T1 = atomic.LoadInt64(&c.T1)
	}
	return out
}

func (x *Exec) Args() []ArgEv {
	x.mu.Lock()
	defer x.mu.Unlock()
	return append([]ArgEv(nil), x.args...)
}

func (x *Exec) Emits() []EmitEv {
	x.mu.Lock()
	defer x.mu.Unlock()
	return append([]EmitEv(nil), x.emits...)
}

func (x *Exec) ResultSet(i int) bool { return x.resultSet[i] }

// ---------------------------------------------------------------------------
// Argument-evaluation monitor.

// Gor returns the current goroutine's id.
func Gor() int {
	var buf [64]byte
	n := runtime.Stack(buf[:], false)
	s := strings.TrimPrefix(string(buf[:n]), "goroutine ")
	if i := strings.IndexByte(s, ' '); i > 0 {
		id, _ := strconv.Atoi(s[:i])
		return id
	}
	return -1
}

// A logs the evaluation of the argument expression at site and returns v.
func A[T any](x *Exec, site int, v T) T {
	if x == nil || x.Quiet {
		return v
	}
	ev := ArgEv{Site: site, T: stamp(), Gor: Gor()}
	x.mu.Lock()
	x.args = append(x.args, ev)
	x.mu.Unlock()
	return v
}

// AP is an argument expression that is a call (Bare programs with BareMix):
// the call overwrites the argument variables that precede it in the directive.
func AP[T any](x *Exec, site int, v T, mut func()) T {
	if x == nil || x.Quiet {
		return v
	}
	mut()
	x.MidPoisons.Add(1)
	return v
}

// ---------------------------------------------------------------------------
// Token <-> string helpers used by generated mk/un functions.

func TokStr(v uint64) string {
	if v == 0 {
		return ""
	}
	return strconv.FormatUint(v, 36)
}

func StrTok(s string) uint64 {
	if s == "" {
		return 0
	}
	v, _ := strconv.ParseUint(s, 36, 64)
	return v
}

func TokKey(i uint64) string { return "k" + strconv.FormatUint(i, 10) }

func KeyTok(k string) uint64 {
	v, _ := strconv.ParseUint(strings.TrimPrefix(k, "k"), 10, 64)
	return v
}
