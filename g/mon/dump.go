package mon

import (
	"regexp"
	"runtime"
	"strconv"
	"strings"
)

// G is one goroutine of a runtime.Stack(all) dump.
type G struct {
	ID     int      `json:"id"`
	State  string   `json:"state"`
	Frames []string `json:"frames"` // function names, innermost first
}

func DumpAll() string {
	buf := make([]byte, 1<<20)
	for {
		n := runtime.Stack(buf, true)
		if n < len(buf) {
			return string(buf[:n])
		}
		buf = make([]byte, 2*len(buf))
	}
}

var hdrRe = regexp.MustCompile(`^goroutine (\d+) \[([^\],]+)(?:, [^\]]*)?\]:$`)

func ParseDump(s string) []G {
	var out []G
	var cur *G
	for _, line := range strings.Split(s, "\n") {
		if m := hdrRe.FindStringSubmatch(line); m != nil {
			id, _ := strconv.Atoi(m[1])
			out = append(out, G{ID: id, State: m[2]})
			cur = &out[len(out)-1]
			continue
		}
		if cur == nil || line == "" || strings.HasPrefix(line, "\t") {
			continue
		}
		fn := line
		if strings.HasPrefix(fn, "created by ") {
			fn = strings.TrimPrefix(fn, "created by ")
			if i := strings.Index(fn, " in goroutine"); i >= 0 {
				fn = fn[:i]
			}
			cur.Frames = append(cur.Frames, "created by "+fn)
			continue
		}
		if i := strings.LastIndex(fn, "("); i > 0 {
			fn = fn[:i]
		}
		cur.Frames = append(cur.Frames, fn)
	}
	return out
}

func (g G) Has(sub string) bool {
	for _, f := range g.Frames {
		if strings.Contains(f, sub) {
			return true
		}
	}
	return false
}

// inScheduler: the goroutine was started by, or is executing, scheduler code
// (loop, worker, spawner) - not a caller that merely calls Enqueue/Wait.
func (g G) InScheduler() bool {
	for _, f := range g.Frames {
		if strings.HasPrefix(f, "created by go.uber.org/cff/scheduler.") {
			return true
		}
		// goroutines the context package runs for a context that was derived
		// from a context of foreign implementation and not cancelled yet: the
		// harness derives no such context, generated code might
		if strings.HasPrefix(f, "created by context.(*cancelCtx).propagateCancel") {
			return true
		}
	}
	return false
}

func (g G) Blocked() bool {
	switch {
	case strings.HasPrefix(g.State, "chan send"), strings.HasPrefix(g.State, "chan receive"),
		strings.HasPrefix(g.State, "select"), strings.HasPrefix(g.State, "semacquire"),
		strings.HasPrefix(g.State, "sync."):
		return true
	}
	return false
}

func (g G) Key() string {
	return strconv.Itoa(g.ID) + "|" + g.State + "|" + strings.Join(g.Frames, ";")
}

// sameBlocked: both sets hold the same goroutines, all blocked, same frames.
func SameBlocked(a, b []G) bool {
	if len(a) != len(b) {
		return false
	}
	m := map[string]bool{}
	for _, g := range a {
		if !g.Blocked() {
			return false
		}
		m[g.Key()] = true
	}
	for _, g := range b {
		if !m[g.Key()] {
			return false
		}
	}
	return true
}
