// Package prog defines abstract cff programs (what a directive says, not how it
// is spelled), their random generation, their printing as Go source, and the
// reference semantics the monitors compare executions with.
//
// The reference is written from the property statements: a type has exactly
// one provider; a task runs once its providers and its predicate are there;
// and so on. It never looks at generated code.
package prog

// TKind is the Go shape of a value type. Every value is a 64-bit token wrapped
// in the type; token 0 is the Go zero value.
type TKind int

const (
	KNamedInt   TKind = iota // type Tn uint64
	KStruct                  // type Tn struct{ V uint64; S string }
	KPtr                     // *Tns  (type Tns struct{ V uint64 })
	KSlice                   // []Tne (type Tne uint64)
	KMap                     // map[string]Tne
	KGeneric                 // G[Tne]  (type G[X any] struct{ V uint64; X X })
	KNamedSlice              // type Tn []uint64
	KU64                     // uint64    (at most one per flow)
	KI64                     // int64
	KStr                     // string
	KArr                     // [2]uint64
	KExt                     // hb.Xn: declared in a package the file does not import
	KExtPtr                  // *hb.Xn
	KVis                     // hc.Yn: declared in a helper package the file imports
	KVisPtr                  // *hc.Yn
	KBytes                   // []byte where it is provided, []uint8 where it is consumed (one type, two spellings)
	KAny                     // interface{} where provided, any where consumed
	KFuncT                   // func(n int) int where provided, func(int) int where consumed
	KAnon                    // struct{ V uint64 }: an unnamed struct type
	KAlias                   // type Tn struct{...}; type An = Tn: Tn where provided, the alias An where consumed
	KTwinA                   // ma.U: type U of package <base>/ta/model, imported as ma
	KTwinB                   // mb.U: type U of package <base>/tb/model (same package name, same type name), imported as mb
	KF64                     // float64; a FallbackWith value of this type is written as a constant literal with 17 significant digits
	numKinds
)

// Unnamed reports kinds that are unnamed Go types: two value types of such a
// kind would be one type, so a flow has at most one of each.
func (k TKind) Unnamed() bool {
	return k >= KU64 && k <= KArr || k >= KBytes && k <= KAnon || k == KF64
}

// Spelling of a function expression.
const (
	SpLit       = iota // function literal capturing x
	SpTop              // top-level function of the package
	SpMethod           // method value h.Fn (h captures x)
	SpVar              // local variable holding a function literal
	SpImport           // function of the helper package ha
	SpGeneric          // instantiated generic function gen[Tn]
	SpMethodVal        // method value hv.Vn: value-receiver method reached through a pointer (the receiver is copied when the method value is evaluated)
	numSpell
)

// Fn is a user function: a task, a predicate, a parallel task, an element
// function or an End hook.
type Fn struct {
	ID    int    `json:"id"`
	Role  string `json:"role"` // task pred ptask slice map send mend
	Ins   []int  `json:"ins,omitempty"`
	Outs  []int  `json:"outs,omitempty"`
	Ctx   bool   `json:"ctx,omitempty"`
	Err   bool   `json:"err,omitempty"`
	Spell int    `json:"spell,omitempty"`
}

// Task is one cff.Task of a Flow.
type Task struct {
	Fn         Fn    `json:"fn"`
	Pred       *Fn   `json:"pred,omitempty"`
	Fallback   bool  `json:"fallback,omitempty"`
	Invoke     bool  `json:"invoke,omitempty"`
	Instrument bool  `json:"instrument,omitempty"`
	OptOrder   []int `json:"opt_order,omitempty"` // order of the task options
}

// Flow is one cff.Flow directive.
type Flow struct {
	Params      []int  `json:"params,omitempty"`
	Results     []int  `json:"results,omitempty"`
	Tasks       []Task `json:"tasks"`       // in dependency (creation) order
	Listing     []int  `json:"listing"`     // order in which tasks are listed
	Concurrency bool   `json:"concurrency"` // cff.Concurrency(x.Conc()) present
	Instrument  bool   `json:"instrument,omitempty"`
	Emitters    []int  `json:"emitters,omitempty"` // shape of the WithEmitter options, see print
	OptOrder    []int  `json:"opt_order,omitempty"`
	SplitParams bool   `json:"split_params,omitempty"` // two cff.Params options
	// SplitResults: two cff.Results options (1: next to each other, 2: the
	// second one after all other options).
	SplitResults int `json:"split_results,omitempty"`
	// ResultsVia: the Results targets are fields reached through a pointer
	// (&res.r0); the program re-points res when the first user function runs.
	ResultsVia bool `json:"results_via,omitempty"`
}

// Coll is a Slice or Map of a Parallel.
type Coll struct {
	IsMap    bool  `json:"is_map,omitempty"`
	Fn       Fn    `json:"fn"`
	HasIndex bool  `json:"has_index,omitempty"` // slices
	End      *Fn   `json:"end,omitempty"`
	Named    bool  `json:"named,omitempty"` // named slice/map type
	ElemKind TKind `json:"elem_kind"`
	IntKey   bool  `json:"int_key,omitempty"` // maps: int keys instead of string
	Slot     int   `json:"slot"`              // which scenario collection
}

// PItem is one option of a Parallel that carries functions.
type PItem struct {
	Kind       string `json:"kind"` // task tasks slice map
	Fns        []Fn   `json:"fns,omitempty"`
	Instrument bool   `json:"instrument,omitempty"` // kind task
	Coll       *Coll  `json:"coll,omitempty"`
}

// Par is one cff.Parallel directive.
type Par struct {
	Items       []PItem `json:"items"`
	Concurrency bool    `json:"concurrency"`
	COE         bool    `json:"coe"` // cff.ContinueOnError(x.COE()) present
	Instrument  bool    `json:"instrument,omitempty"`
	Emitters    []int   `json:"emitters,omitempty"`
	OptOrder    []int   `json:"opt_order,omitempty"`
}

// Program is one generated package with one directive.
type Program struct {
	Name     string  `json:"name"`
	Types    []TKind `json:"types"` // index = type id
	Flow     *Flow   `json:"flow,omitempty"`
	Par      *Par    `json:"par,omitempty"`
	Wrap     bool    `json:"wrap,omitempty"`    // argument expressions wrapped in rt.A
	Generic  bool    `json:"generic,omitempty"` // directive inside a generic function
	InMethod bool    `json:"in_method,omitempty"`
	PadLines bool    `json:"pad_lines,omitempty"`  // the directive starts at line 98 or 998 of its file
	InVarLit bool    `json:"in_var_lit,omitempty"` // directive inside a function literal that initialises a package-level variable
	// FBLit: struct value types carry an error field, and a FallbackWith value
	// of such a type is written as a call-free composite literal that names the
	// enclosing function's own variable "err" (nil there) - an identifier the
	// generated task closure declares too.
	FBLit bool `json:"fb_lit,omitempty"`
	// Shadow: user variables named like identifiers of the generated code hold
	// the Params values (and other argument values) of the directive.
	Shadow bool `json:"shadow,omitempty"`
	// Bare: every argument of the directive is a plain identifier (a local
	// variable declared just before it), and all those variables are
	// overwritten with recognisable poison values as soon as the first user
	// function is entered: an argument that is read after that moment shows.
	Bare bool `json:"bare,omitempty"`
	// BareMix (Bare programs, 0 = off): every BareMix-th argument is a call
	// instead of a bare identifier, and that call overwrites the argument
	// variables of the options that precede its own option with the same poison
	// values: an argument that is not a call and is read after the call in a
	// later option (not in source order) shows.
	BareMix int `json:"bare_mix,omitempty"`
	// GoTag: a Go release tag ("go1.21", "" for none) added to the file's build
	// constraint (//go:build cff && go1.21). In a module whose go.mod says a
	// newer Go it selects the older language version for the file - and for the
	// generated file, which must carry the constraint over -, e.g. loop
	// variables shared by all iterations below go1.22.
	GoTag string `json:"go_tag,omitempty"`
	// ConstConc > 0: the argument of cff.Concurrency is the package-level
	// constant concK, declared twice: in a file tagged cff (what the generator
	// sees: another value) and in a file tagged !cff (what the program is built
	// with: ConstConc). The limit in force is the one of the build - a generator
	// that folds the constant freezes the other value.
	ConstConc int `json:"const_conc,omitempty"`
	// ConstCOE: likewise for cff.ContinueOnError(coeK). 1: false under the cff
	// tag and true in the build; 2: the other way round.
	ConstCOE int `json:"const_coe,omitempty"`
	// Base is the import path of the program's package (set by Files); programs
	// with imported functions have helper packages Base/ha, Base/hb, Base/hc.
	Base string `json:"-"`
	// AliasImports: the helper packages are imported under local names that
	// differ from their package names (fns ".../ha", vis ".../hc").
	AliasImports bool `json:"alias_imports,omitempty"`
	// LineDirs: //line comments between the directive's arguments announce
	// decreasing line numbers of another file (as preprocessor output does).
	LineDirs bool `json:"line_dirs,omitempty"`
	// Guest: a second program printed into this program's file (same package,
	// its identifiers renamed): two directives per file. Host: for a guest, the
	// name of the program whose file holds it.
	Guest          *Program `json:"-"`
	Host           string   `json:"host,omitempty"`
	inHelper       bool     // printing a signature inside the helper package
	Features       []string `json:"features,omitempty"`
	NumFns         int      `json:"num_fns"`
	NumSites       int      `json:"num_sites"` // rt.A sites
	AutoInstrument bool     `json:"auto_instrument,omitempty"`
	// ConcurrentOK: every function can find its execution without a global.
	ConcurrentOK bool `json:"concurrent_ok"`
}

// AllFns lists every user function of the program.
func (p *Program) AllFns() []*Fn {
	var out []*Fn
	if p.Flow != nil {
		for i := range p.Flow.Tasks {
			t := &p.Flow.Tasks[i]
			out = append(out, &t.Fn)
			if t.Pred != nil {
				out = append(out, t.Pred)
			}
		}
	}
	if p.Par != nil {
		for i := range p.Par.Items {
			it := &p.Par.Items[i]
			for k := range it.Fns {
				out = append(out, &it.Fns[k])
			}
			if it.Coll != nil {
				out = append(out, &it.Coll.Fn)
				if it.Coll.End != nil {
					out = append(out, it.Coll.End)
				}
			}
		}
	}
	return out
}

func (p *Program) HasFeature(f string) bool {
	for _, x := range p.Features {
		if x == f {
			return true
		}
	}
	return false
}

// ---------------------------------------------------------------------------
// PRNG (splitmix64), the same everywhere so that cases are value-determined.

type Rand struct{ s uint64 }

func NewRand(seed uint64, stream ...uint64) *Rand {
	r := &Rand{s: seed*0x9E3779B97F4A7C15 + 0x1234567}
	for _, x := range stream {
		r.s ^= Mix(x + 0x9E3779B97F4A7C15)
		r.Uint64()
	}
	return r
}

func Mix(z uint64) uint64 {
	z += 0x9E3779B97F4A7C15
	z = (z ^ (z >> 30)) * 0xBF58476D1CE4E5B9
	z = (z ^ (z >> 27)) * 0x94D049BB133111EB
	return z ^ (z >> 31)
}

func (r *Rand) Uint64() uint64 {
	r.s += 0x9E3779B97F4A7C15
	z := r.s
	z = (z ^ (z >> 30)) * 0xBF58476D1CE4E5B9
	z = (z ^ (z >> 27)) * 0x94D049BB133111EB
	return z ^ (z >> 31)
}

func (r *Rand) Intn(n int) int {
	if n <= 0 {
		return 0
	}
	return int(r.Uint64() % uint64(n))
}

func (r *Rand) Chance(num, den int) bool { return r.Intn(den) < num }

func (r *Rand) Perm(n int) []int {
	p := make([]int, n)
	for i := range p {
		p[i] = i
	}
	for i := n - 1; i > 0; i-- {
		j := r.Intn(i + 1)
		p[i], p[j] = p[j], p[i]
	}
	return p
}

func (r *Rand) PickInt(xs ...int) int { return xs[r.Intn(len(xs))] }
