package prog

// Reference semantics, written from the property statements.

// Expectation status of a function in one execution.
const (
	MustCall = iota // called exactly once with Args
	MustNot         // never called
	May             // at most once, and then with Args
)

type FnRef struct {
	Status int
	Args   []uint64
	// What the call itself does when it happens (from the scenario).
	Outcome Outcome
	// For tasks: how the task ends as seen by the flow.
	TaskEnd  int  // TEok, TEfailed, TEskippedFalse, TErecovered, TEblocked
	Recovers bool // the task's FallbackWith absorbs a failure
	PredOf   int  // for predicates: the task's function id
}

const (
	TEok = iota
	TEfailed
	TEskippedFalse
	TErecovered
	TEblocked
)

// FlowRef is what a flow execution must look like.
type FlowRef struct {
	Fns     map[int]*FnRef
	Fails   bool
	Results []uint64 // on success
	// Fn ids of tasks whose failure may be the returned error: the task (or its
	// predicate) really fails according to the scenario.
	Failing map[int]bool
}

// RefFlow evaluates flow p under scenario s for execution exec.
func RefFlow(p *Program, s *Scenario, exec uint64) *FlowRef {
	f := p.Flow
	ref := &FlowRef{Fns: map[int]*FnRef{}, Failing: map[int]bool{}}
	val := map[int]uint64{}
	okT := map[int]bool{} // type is available (its provider succeeded)
	for i, t := range f.Params {
		val[t] = ParamTok(exec, i)
		okT[t] = true
	}
	argsOf := func(ins []int) ([]uint64, bool) {
		var a []uint64
		all := true
		for _, in := range ins {
			if !okT[in] {
				all = false
			}
			a = append(a, val[in])
		}
		return a, all
	}
	for ti := range f.Tasks {
		t := &f.Tasks[ti]
		tr := &FnRef{Outcome: s.Out[t.Fn.ID], Recovers: t.Fallback}
		ref.Fns[t.Fn.ID] = tr
		args, insOK := argsOf(t.Fn.Ins)
		tr.Args = args
		predState := OOK // no predicate = true
		predBlocked := false
		if t.Pred != nil {
			pr := &FnRef{Outcome: s.Out[t.Pred.ID], PredOf: t.Fn.ID}
			ref.Fns[t.Pred.ID] = pr
			pa, pok := argsOf(t.Pred.Ins)
			pr.Args = pa
			if !pok {
				pr.Status = MustNot
				predBlocked = true
			} else {
				pr.Status = MustCall
				predState = pr.Outcome.Kind
			}
		}
		fbTok := func(i int) uint64 {
			if p.ConstFB(t.Fn.Outs[i]) {
				return ConstFBTok(p.Name, t.Fn.ID, i)
			}
			return FallbackTok(exec, t.Fn.ID, i)
		}
		setOuts := func(get func(i int) uint64, ok bool) {
			for i, o := range t.Fn.Outs {
				val[o] = get(i)
				okT[o] = ok
			}
		}
		switch {
		case !insOK || predBlocked:
			tr.Status = MustNot
			tr.TaskEnd = TEblocked
			setOuts(func(int) uint64 { return 0 }, false)
		case predState == OFalse:
			tr.Status = MustNot
			tr.TaskEnd = TEskippedFalse
			setOuts(func(int) uint64 { return 0 }, true)
		case predState == OPanic:
			tr.Status = MustNot
			if t.Fallback {
				tr.TaskEnd = TErecovered
				setOuts(fbTok, true)
			} else {
				tr.TaskEnd = TEfailed
				ref.Failing[t.Fn.ID] = true
				setOuts(func(int) uint64 { return 0 }, false)
			}
		default:
			tr.Status = MustCall
			switch tr.Outcome.Kind {
			case OOK, OCancelOK:
				tr.TaskEnd = TEok
				setOuts(func(i int) uint64 { return H(exec, t.Fn.ID, i, args) }, true)
			default: // error, panic, goexit
				if t.Fallback && tr.Outcome.Kind != OGoexit {
					tr.TaskEnd = TErecovered
					setOuts(fbTok, true)
				} else {
					tr.TaskEnd = TEfailed
					ref.Failing[t.Fn.ID] = true
					setOuts(func(int) uint64 { return 0 }, false)
				}
			}
		}
	}
	ref.Fails = len(ref.Failing) > 0
	if ref.Fails {
		// Fail-fast: whatever is not blocked may or may not have been reached.
		for _, fr := range ref.Fns {
			if fr.Status == MustCall {
				fr.Status = May
			}
		}
	} else {
		for _, t := range f.Results {
			ref.Results = append(ref.Results, val[t])
		}
	}
	return ref
}

// ElemRef is the expectation for one element call.
type ElemRef struct {
	Args    []uint64 // what the stub logs: (index|key, value) or (value)
	Outcome Outcome
}

// ParRef is what a Parallel execution must look like.
type ParRef struct {
	// Plain functions (Task / Tasks): id -> outcome.
	Tasks map[int]Outcome
	// Element functions: fn id -> expected calls keyed by ElemKey.
	Elems map[int]map[uint64]ElemRef
	// End hooks: fn id -> collection's element fn id.
	Ends map[int]int
	// EndBlocked: End hook fn id -> some element call of its collection fails.
	EndBlocked map[int]bool
	Fails      bool
	// Number of failing calls (tasks + elements + end hooks), and which.
	FailingFns map[int]int
	Total      int // total number of calls when everything runs
}

func RefPar(p *Program, s *Scenario, exec uint64) *ParRef {
	ref := &ParRef{Tasks: map[int]Outcome{}, Elems: map[int]map[uint64]ElemRef{}, Ends: map[int]int{}, EndBlocked: map[int]bool{}, FailingFns: map[int]int{}}
	fails := func(o Outcome) bool { return o.Kind == OErr || o.Kind == OPanic || o.Kind == OGoexit }
	for _, it := range p.Par.Items {
		for _, f := range it.Fns {
			o := s.Out[f.ID]
			ref.Tasks[f.ID] = o
			ref.Total++
			if fails(o) {
				ref.FailingFns[f.ID]++
			}
		}
		if c := it.Coll; c != nil {
			m := map[uint64]ElemRef{}
			var toks []uint64
			if c.Slot < len(s.Colls) {
				toks = s.Colls[c.Slot]
			}
			anyFail := false
			for i, tok := range toks {
				key := ElemKey(c, toks, i)
				var args []uint64
				if c.IsMap || c.HasIndex {
					args = []uint64{uint64(i), tok}
				} else {
					args = []uint64{tok}
				}
				o := s.OutcomeOf(c.Fn.ID, key)
				m[key] = ElemRef{Args: args, Outcome: o}
				ref.Total++
				if fails(o) {
					anyFail = true
					ref.FailingFns[c.Fn.ID]++
				}
			}
			ref.Elems[c.Fn.ID] = m
			if c.End != nil {
				ref.Ends[c.End.ID] = c.Fn.ID
				ref.Tasks[c.End.ID] = s.Out[c.End.ID]
				if anyFail {
					ref.EndBlocked[c.End.ID] = true
				} else {
					ref.Total++
					if fails(s.Out[c.End.ID]) {
						ref.FailingFns[c.End.ID]++
					}
				}
			}
		}
	}
	ref.Fails = len(ref.FailingFns) > 0
	return ref
}
