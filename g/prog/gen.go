package prog

import "fmt"

// GenOpts steers the random program generators.
type GenOpts struct {
	MaxTasks     int
	PredPct      int // chance (percent) that a task has a predicate
	FallbackPct  int
	InstrPct     int   // chance that the directive is instrumented (then tasks 50%)
	Spellings    []int // allowed spellings (default: all safe ones)
	Kinds        []TKind
	WrapPct      int  // chance that argument expressions are wrapped in rt.A
	ShadowPct    int  // chance that Params come from variables named like generated identifiers
	TwinPct      int  // chance that a flow has two value types of one name from two packages of one name
	PairPct      int  // chance that a program is printed into the file of its predecessor (two directives per file)
	LineDirPct   int  // chance that //line comments with decreasing line numbers sit between the directive's arguments
	ImportPct    int  // chance that some functions of a flow come from a helper package, with value types from packages the file imports / does not import
	Wide         int  // also generate this many wide programs (GenWide)
	ParMatrix    bool // also generate the systematic signature matrix of Parallel programs (GenParMatrix)
	BarePct      int  // chance that every argument is a bare identifier, poisoned once a user function runs
	NoInvoke     bool // every task has at least one output; leftovers go to Results
	GenericPct   int
	NoConcOption bool
	ForceCOE     int // parallels: 0 random, 1 always present, 2 never
	MaxColl      int // parallels: max collections
	EndPct       int
}

func DefaultOpts() GenOpts {
	return GenOpts{MaxTasks: 10, PredPct: 20, FallbackPct: 20, InstrPct: 30,
		Spellings:  []int{SpLit, SpLit, SpLit, SpTop, SpMethod, SpVar, SpGeneric, SpMethodVal},
		Kinds:      []TKind{KNamedInt, KNamedInt, KStruct, KPtr, KSlice, KMap, KGeneric, KNamedSlice, KU64, KI64, KStr, KArr, KBytes, KAny, KFuncT, KAnon, KAlias, KF64},
		WrapPct:    40,
		BarePct:    12,
		ImportPct:  20,
		LineDirPct: 15,
		PairPct:    15,
		TwinPct:    25,
		GenericPct: 15,
		MaxColl:    3,
		EndPct:     40,
	}
}

type flowGen struct {
	r                  *Rand
	o                  GenOpts
	p                  *Program
	basic              map[TKind]bool
	nfn                int
	twins              bool // this program gets a pair of value types ma.U / mb.U (two packages of one name)
	curTask, twinATask int  // 1-based index of the task whose outputs are being created (0: none)
	twinJoined         bool
}

func (g *flowGen) newType() int {
	if g.twins && g.curTask > 0 && g.basic[KTwinA] && !g.basic[KTwinB] && g.curTask != g.twinATask {
		// the twin is an output of the next task
		g.basic[KTwinB] = true
		g.p.Types = append(g.p.Types, KTwinB)
		return len(g.p.Types) - 1
	}
	for {
		k := g.o.Kinds[g.r.Intn(len(g.o.Kinds))]
		if g.twins && g.curTask > 0 && !g.basic[KTwinA] {
			k = KTwinA
			g.twinATask = g.curTask
		}
		if k.Unnamed() || k == KTwinA {
			if g.basic[k] {
				continue
			}
			g.basic[k] = true
		}
		g.p.Types = append(g.p.Types, k)
		return len(g.p.Types) - 1
	}
}

func (g *flowGen) newFn(role string) Fn {
	g.nfn++
	f := Fn{ID: g.nfn, Role: role}
	f.Spell = g.o.Spellings[g.r.Intn(len(g.o.Spellings))]
	return f
}

// GenFlow builds a random well-formed flow: every type has exactly one
// provider, every consumed type is provided, the graph is acyclic (tasks only
// consume types that existed before them), every param and every output is
// consumed, and output-less tasks carry Invoke(true).
func GenFlow(r *Rand, name string, o GenOpts) *Program {
	g := &flowGen{r: r, o: o, p: &Program{Name: name}, basic: map[TKind]bool{}}
	p := g.p
	p.Types = []TKind{KNamedInt} // type 0 is never used (keeps ids positive)
	g.twins = o.TwinPct > 0 && int(Mix(uint64(p.nameOffset())+19)%100) < o.TwinPct
	f := &Flow{}
	p.Flow = f
	var avail []int
	unconsumed := map[int]bool{}
	np := r.PickInt(0, 1, 1, 2, 2, 3)
	for i := 0; i < np; i++ {
		t := g.newType()
		f.Params = append(f.Params, t)
		avail = append(avail, t)
		unconsumed[t] = true
	}
	nt := 1 + r.Intn(o.MaxTasks)
	if r.Chance(1, 3) {
		nt = 1 + r.Intn(4)
	}
	pickIns := func(max int) []int {
		var ins []int
		if len(avail) == 0 {
			return nil
		}
		n := r.Intn(max + 1)
		for k := 0; k < n; k++ {
			var t int
			var un []int
			for _, a := range avail {
				if unconsumed[a] {
					un = append(un, a)
				}
			}
			if len(un) > 0 && r.Chance(7, 10) {
				t = un[r.Intn(len(un))]
			} else {
				t = avail[r.Intn(len(avail))]
			}
			dup := false
			for _, x := range ins {
				if x == t {
					dup = true
				}
			}
			if dup && !r.Chance(1, 6) {
				continue
			}
			ins = append(ins, t)
		}
		return ins
	}
	for i := 0; i < nt; i++ {
		t := Task{Fn: g.newFn("task")}
		t.Fn.Ins = pickIns(3)
		if g.twins && !g.twinJoined {
			// the first task created after both twins exist consumes both
			a, b := 0, 0
			for _, ty := range avail {
				switch p.Types[ty] {
				case KTwinA:
					a = ty
				case KTwinB:
					b = ty
				}
			}
			if a > 0 && b > 0 {
				var ins []int
				for _, ty := range t.Fn.Ins {
					if ty != a && ty != b {
						ins = append(ins, ty)
					}
				}
				t.Fn.Ins = append(ins, a, b)
				g.twinJoined = true
			}
		}
		if len(t.Fn.Ins) == 0 && len(avail) > 0 && r.Chance(2, 3) {
			t.Fn.Ins = []int{avail[r.Intn(len(avail))]}
		}
		t.Fn.Ctx = r.Chance(4, 10)
		t.Fn.Err = r.Chance(5, 10)
		nout := r.PickInt(1, 1, 1, 1, 1, 2, 2, 3, 0)
		if o.NoInvoke && nout == 0 {
			nout = 1
		}
		if r.Intn(100) < o.PredPct {
			pf := g.newFn("pred")
			pf.Ins = pickIns(2)
			pf.Ctx = r.Chance(3, 10)
			if pf.Spell == SpGeneric {
				pf.Spell = SpLit
			}
			t.Pred = &pf
		}
		g.curTask = i + 1
		for k := 0; k < nout; k++ {
			t.Fn.Outs = append(t.Fn.Outs, g.newType())
		}
		g.curTask = 0
		if nout == 0 {
			t.Invoke = true
		}
		if t.Fn.Err && r.Intn(100) < o.FallbackPct && (nout > 0 || r.Chance(1, 2)) {
			t.Fallback = true
		}
		for _, in := range t.Fn.Ins {
			delete(unconsumed, in)
		}
		if t.Pred != nil {
			for _, in := range t.Pred.Ins {
				delete(unconsumed, in)
			}
		}
		for _, out := range t.Fn.Outs {
			avail = append(avail, out)
			unconsumed[out] = true
		}
		f.Tasks = append(f.Tasks, t)
	}
	if g.twins && !g.twinJoined && !o.NoInvoke {
		// no task consumes both twins yet: a sink task does
		a, b := 0, 0
		for _, ty := range avail {
			switch p.Types[ty] {
			case KTwinA:
				a = ty
			case KTwinB:
				b = ty
			}
		}
		if a > 0 && b > 0 {
			t := Task{Fn: g.newFn("task"), Invoke: true}
			t.Fn.Ins = []int{a, b}
			delete(unconsumed, a)
			delete(unconsumed, b)
			f.Tasks = append(f.Tasks, t)
			g.twinJoined = true
		}
	}
	// Consume what is left: Results or sink tasks.
	var left []int
	for _, a := range avail {
		if unconsumed[a] {
			left = append(left, a)
		}
	}
	for len(left) > 0 {
		if o.NoInvoke || r.Chance(6, 10) {
			f.Results = append(f.Results, left[0])
			left = left[1:]
			continue
		}
		n := 1 + r.Intn(3)
		if n > len(left) {
			n = len(left)
		}
		t := Task{Fn: g.newFn("task"), Invoke: true}
		t.Fn.Ins = append(t.Fn.Ins, left[:n]...)
		t.Fn.Ctx = r.Chance(3, 10)
		t.Fn.Err = r.Chance(5, 10)
		left = left[n:]
		f.Tasks = append(f.Tasks, t)
	}
	// a few already-consumed types as additional results
	for _, a := range avail {
		if r.Chance(1, 8) && !contains(f.Results, a) {
			f.Results = append(f.Results, a)
		}
	}
	shuffle(r, f.Results)
	f.Listing = r.Perm(len(f.Tasks))
	f.Concurrency = !o.NoConcOption && r.Chance(7, 10)
	if r.Intn(100) < o.InstrPct {
		f.Instrument = r.Chance(8, 10)
		for i := range f.Tasks {
			f.Tasks[i].Instrument = r.Chance(1, 2)
		}
		ne := 1 + r.Intn(3)
		for i := 0; i < ne; i++ {
			f.Emitters = append(f.Emitters, r.PickInt(1, 1, 2, 3))
		}
		p.AutoInstrument = f.Instrument && r.Chance(1, 3)
	}
	f.SplitParams = len(f.Params) >= 2 && r.Chance(1, 5)
	if len(f.Results) >= 2 && r.Chance(1, 3) {
		f.SplitResults = 1 + r.Intn(2)
	}
	// option order: 0 params, 1 results, 2 concurrency, 3 instrument, 4.. emitters, then tasks interleaved
	nopt := 4 + len(f.Emitters) + len(f.Tasks)
	f.OptOrder = r.Perm(nopt)
	for i := range f.Tasks {
		f.Tasks[i].OptOrder = r.Perm(4)
	}
	p.Wrap = r.Intn(100) < o.WrapPct
	p.Generic = r.Intn(100) < o.GenericPct
	p.InMethod = !p.Generic && r.Chance(1, 6)
	p.Shadow = len(f.Params) > 0 && !f.SplitParams && r.Intn(100) < o.ShadowPct
	if r.Intn(100) < o.BarePct {
		p.Bare, p.Wrap = true, false
		p.BareMix = r.PickInt(0, 2, 3, 4)
	}
	if !p.Bare && r.Intn(100) < o.ImportPct {
		g.importize()
	}
	p.LineDirs = r.Intn(100) < o.LineDirPct
	if !p.Bare && !p.Wrap && len(f.Results) > 0 && r.Chance(1, 2) {
		f.ResultsVia = true
	}
	g.finish()
	return p
}

// importize moves a random subset of a flow's functions into the helper
// package ha (spelling SpImport). ha cannot import the program's package, so
// every non-basic type such a function touches moves out as well: into hc
// (which the program's file imports) when the file itself has to name the type
// - Params, Results, FallbackWith values, functions that stay local - and into
// hb, a package the file does not import, otherwise.
func (g *flowGen) importize() {
	p, r := g.p, g.r
	f := p.Flow
	var fns []*Fn
	for i := range f.Tasks {
		fns = append(fns, &f.Tasks[i].Fn)
		if f.Tasks[i].Pred != nil {
			fns = append(fns, f.Tasks[i].Pred)
		}
	}
	moved := map[*Fn]bool{}
	movable := func(fn *Fn) bool { // the helper package spells only some kinds
		for _, t := range append(append([]int{}, fn.Ins...), fn.Outs...) {
			if p.Types[t] >= KBytes {
				return false
			}
		}
		return true
	}
	var cands []*Fn
	for _, fn := range fns {
		if movable(fn) {
			cands = append(cands, fn)
			if r.Chance(1, 2) {
				moved[fn] = true
			}
		}
	}
	if len(cands) == 0 {
		return
	}
	if len(moved) == 0 {
		moved[cands[r.Intn(len(cands))]] = true
	}
	touchedByMoved := map[int]bool{}
	namedByFile := map[int]bool{}
	for _, t := range f.Params {
		namedByFile[t] = true
	}
	for _, t := range f.Results {
		namedByFile[t] = true
	}
	for i := range f.Tasks {
		if f.Tasks[i].Fallback {
			for _, t := range f.Tasks[i].Fn.Outs {
				namedByFile[t] = true
			}
		}
	}
	for _, fn := range fns {
		for _, t := range append(append([]int{}, fn.Ins...), fn.Outs...) {
			if moved[fn] {
				touchedByMoved[t] = true
			} else {
				namedByFile[t] = true
			}
		}
	}
	for t := 1; t < len(p.Types); t++ { // in type order: the random choices must not depend on map order
		if !touchedByMoved[t] {
			continue
		}
		if k := p.Types[t]; k >= KU64 && k <= KArr {
			continue
		}
		ptr := r.Chance(1, 3)
		switch {
		case namedByFile[t] && ptr:
			p.Types[t] = KVisPtr
		case namedByFile[t]:
			p.Types[t] = KVis
		case ptr:
			p.Types[t] = KExtPtr
		default:
			p.Types[t] = KExt
		}
	}
	for fn := range moved {
		fn.Spell = SpImport
	}
	p.AliasImports = r.Chance(1, 2)
}

func (g *flowGen) finish() {
	p := g.p
	p.NumFns = g.nfn
	p.FBLit = p.Flow != nil && (p.nameOffset()/7)%3 == 0 && p.hasStructFallback()
	p.ConcurrentOK = !p.hasKind(KF64) && !p.FBLit && !p.anyPkgVarColl() // (a constant fallback value carries no execution number; a package-level variable is shared)
	p.GoTag = []string{"go1.21", "", "go1.20", "go1.18"}[p.nameOffset()%4]
	p.PadLines = (p.nameOffset()/17)%4 == 0
	p.InVarLit = !p.Generic && !p.InMethod && (p.nameOffset()/13)%6 == 0
	if off := p.nameOffset() / 7; (p.Flow != nil && p.Flow.Concurrency || p.Par != nil && p.Par.Concurrency) && off%4 == 1 {
		p.ConstConc = []int{2, 3, 4, 8}[(off/4)%4]
	}
	if off := p.nameOffset() / 11; p.Par != nil && p.Par.COE && off%3 == 1 {
		p.ConstCOE = 1 + (off/3)%2
	}
	for _, f := range p.AllFns() {
		if (f.Spell == SpTop || f.Spell == SpImport || f.Spell == SpGeneric) && !f.Ctx {
			p.ConcurrentOK = false
		}
	}
	feat := map[string]bool{}
	if p.GoTag != "" {
		feat["file-pinned-to-older-go-release"] = true
	}
	if p.InVarLit {
		feat["directive-in-package-level-func-literal"] = true
	}
	if p.FBLit {
		feat["fallback-value-is-a-call-free-composite-literal-naming-the-function's-err"] = true
	}
	if p.anyPkgVarColl() {
		feat["collection-argument-is-a-foreign-package-level-variable"] = true
	}
	if p.hasKind(KTwinA) && p.hasKind(KTwinB) {
		feat["twin-packages"] = true
	}
	if p.LineDirs && (p.nameOffset()/23)%3 == 0 {
		feat["line-directives-all-announcing-one-position"] = true
	}
	if p.PadLines && !p.LineDirs {
		feat["directive-straddles-line-98-100-or-998-1000"] = true
	}
	if p.ConstConc > 0 || p.ConstCOE > 0 {
		feat["option-argument-is-a-constant-that-differs-under-the-cff-tag"] = true
	}
	for _, f := range p.AllFns() {
		feat[fmt.Sprintf("spell%d", f.Spell)] = true
		if f.Ctx {
			feat["ctx"] = true
		}
	}
	for _, k := range p.Types[1:] {
		feat[fmt.Sprintf("kind%d", k)] = true
	}
	if p.Flow != nil {
		for _, t := range p.Flow.Tasks {
			if t.Pred != nil {
				feat["predicate"] = true
			}
			if t.Fallback {
				feat["fallback"] = true
			}
			if t.Invoke {
				feat["invoke"] = true
			}
			if len(t.Fn.Outs) >= 2 {
				feat["multi-output"] = true
			}
		}
		if len(p.Flow.Emitters) > 0 {
			feat["emitters"] = true
		}
	}
	if p.Par != nil {
		for _, it := range p.Par.Items {
			feat["par-"+it.Kind] = true
			if it.Coll != nil && it.Coll.End != nil {
				feat["end-hook"] = true
			}
			if it.Coll != nil && !it.Coll.IsMap && !it.Coll.HasIndex {
				feat["slice-noindex"] = true
			}
		}
		if p.Par.COE {
			feat["coe"] = true
		}
		if len(p.Par.Emitters) > 0 {
			feat["emitters"] = true
		}
	}
	if p.Wrap {
		feat["wrap"] = true
	}
	if p.Bare {
		feat["bare"] = true
		if p.BareMix > 0 {
			feat["bare-with-mutating-calls"] = true
		}
	}
	if p.Flow != nil && p.Flow.SplitResults > 0 {
		feat["two-results-options"] = true
	}
	if p.Flow != nil && p.Flow.ResultsVia {
		feat["results-via-field"] = true
	}
	if p.Shadow && p.Flow != nil {
		for i := range p.Flow.Params {
			feat["shadow:"+p.shadowName(i)] = true
		}
	}
	if p.Generic {
		feat["generic-encl"] = true
	}
	if p.AliasImports {
		feat["helper-imports-aliased"] = true
	}
	if p.LineDirs {
		feat["line-directives-between-arguments"] = true
	}
	if p.InMethod {
		feat["method-encl"] = true
	}
	for k := range feat {
		p.Features = append(p.Features, k)
	}
	sortStrings(p.Features)
}

// GenPar builds a random Parallel program.
func GenPar(r *Rand, name string, o GenOpts) *Program {
	g := &flowGen{r: r, o: o, p: &Program{Name: name}, basic: map[TKind]bool{}}
	p := g.p
	p.Types = []TKind{KNamedInt}
	pr := &Par{}
	p.Par = pr
	nitems := 1 + r.Intn(5)
	slot := 0
	anyEnd := false
	ncoll := 0
	elemKinds := []TKind{KNamedInt, KStruct, KPtr, KU64, KStr, KI64}
	for i := 0; i < nitems; i++ {
		var it PItem
		switch k := r.Intn(10); {
		case k < 3:
			it.Kind = "task"
			f := g.newFn("ptask")
			f.Ctx, f.Err = r.Chance(1, 2), r.Chance(1, 2)
			it.Fns = []Fn{f}
		case k < 5:
			it.Kind = "tasks"
			n := 1 + r.Intn(4)
			for q := 0; q < n; q++ {
				f := g.newFn("ptask")
				f.Ctx, f.Err = r.Chance(1, 2), r.Chance(1, 2)
				it.Fns = append(it.Fns, f)
			}
		default:
			if ncoll >= o.MaxColl {
				it.Kind = "task"
				f := g.newFn("ptask")
				f.Ctx, f.Err = r.Chance(1, 2), r.Chance(1, 2)
				it.Fns = []Fn{f}
				break
			}
			ncoll++
			c := &Coll{IsMap: k >= 8, Slot: slot}
			slot++
			role := "slice"
			if c.IsMap {
				role = "map"
			}
			c.Fn = g.newFn(role)
			c.Fn.Ctx, c.Fn.Err = r.Chance(1, 2), r.Chance(1, 2)
			c.HasIndex = c.IsMap || r.Chance(6, 10)
			c.Named = r.Chance(1, 4)
			c.ElemKind = elemKinds[r.Intn(len(elemKinds))]
			c.IntKey = r.Chance(1, 3)
			if r.Intn(100) < o.EndPct && o.ForceCOE != 1 {
				role := "send"
				if c.IsMap {
					role = "mend"
				}
				e := g.newFn(role)
				e.Ctx, e.Err = r.Chance(1, 2), r.Chance(1, 2)
				c.End = &e
				anyEnd = true
			}
			it.Kind = "slice"
			if c.IsMap {
				it.Kind = "map"
			}
			it.Coll = c
		}
		pr.Items = append(pr.Items, it)
	}
	switch o.ForceCOE {
	case 1:
		pr.COE = true
	case 2:
		pr.COE = false
	default:
		pr.COE = !anyEnd && r.Chance(6, 10)
	}
	if anyEnd {
		pr.COE = false
	}
	pr.Concurrency = !o.NoConcOption && r.Chance(7, 10)
	if r.Intn(100) < o.InstrPct {
		pr.Instrument = r.Chance(8, 10)
		for i := range pr.Items {
			if pr.Items[i].Kind == "task" {
				pr.Items[i].Instrument = r.Chance(1, 2)
			}
		}
		ne := 1 + r.Intn(3)
		for i := 0; i < ne; i++ {
			pr.Emitters = append(pr.Emitters, r.PickInt(1, 1, 2, 3))
		}
	}
	pr.OptOrder = r.Perm(3 + len(pr.Emitters) + len(pr.Items))
	p.Wrap = r.Intn(100) < o.WrapPct
	p.Generic = r.Intn(100) < o.GenericPct
	p.InMethod = !p.Generic && r.Chance(1, 6)
	if r.Intn(100) < o.BarePct {
		p.Bare, p.Wrap = true, false
		p.BareMix = r.PickInt(0, 2, 3, 4)
	}
	if !p.Bare && !p.Generic && o.ImportPct > 0 && p.nameOffset()%100 < o.ImportPct {
		// Task/Tasks functions (no parameters of the program's own types) that
		// live in the helper package ha
		moved := false
		for i := range pr.Items {
			for k := range pr.Items[i].Fns {
				if fn := &pr.Items[i].Fns[k]; pr.Items[i].Coll == nil && (p.nameOffset()/100+fn.ID)%2 == 0 {
					fn.Spell = SpImport
					moved = true
				}
			}
		}
		_ = moved
	}
	g.finish()
	return p
}

// GenWide builds a directive with n independent functions and nothing else:
// a Parallel of Task/Tasks items (even i) or a Flow of input-less, output-less
// Invoke tasks (odd i). Only every third program sets cff.Concurrency, so the
// default limit max(GOMAXPROCS, 4) is what bounds most of them.
func GenWide(i int, name string, o GenOpts) *Program {
	r := NewRand(uint64(i), 0x71DE)
	g := &flowGen{r: r, o: o, p: &Program{Name: name}, basic: map[TKind]bool{}}
	p := g.p
	p.Types = []TKind{KNamedInt}
	n := 6 + (i*7)%20
	if i%2 == 0 && !o.NoInvoke {
		pr := &Par{}
		p.Par = pr
		for k := 0; k < n; {
			if r.Chance(1, 2) {
				f := g.newFn("ptask")
				f.Ctx, f.Err = r.Chance(1, 2), r.Chance(1, 2)
				pr.Items = append(pr.Items, PItem{Kind: "task", Fns: []Fn{f}})
				k++
				continue
			}
			it := PItem{Kind: "tasks"}
			for q := 1 + r.Intn(5); q > 0 && k < n; q-- {
				f := g.newFn("ptask")
				f.Ctx, f.Err = r.Chance(1, 2), r.Chance(1, 2)
				it.Fns = append(it.Fns, f)
				k++
			}
			pr.Items = append(pr.Items, it)
		}
		pr.COE = i%4 == 0
		pr.Concurrency = i%3 == 0
		pr.OptOrder = r.Perm(3 + len(pr.Items))
	} else {
		f := &Flow{}
		p.Flow = f
		for k := 0; k < n; k++ {
			fn := g.newFn("task")
			fn.Ctx, fn.Err = r.Chance(1, 2), r.Chance(1, 2)
			t := Task{Fn: fn, Invoke: true, OptOrder: r.Perm(4)}
			if o.NoInvoke {
				// (modifier mode has no Invoke: every function has a result of a
				// type of its own, and the flow asks for all of them)
				p.Types = append(p.Types, KNamedInt)
				ty := len(p.Types) - 1
				t.Invoke = false
				t.Fn.Outs = []int{ty}
				f.Results = append(f.Results, ty)
			}
			f.Tasks = append(f.Tasks, t)
		}
		f.Listing = r.Perm(n)
		f.Concurrency = i%3 == 0 || o.NoInvoke
		f.OptOrder = r.Perm(4 + n)
	}
	g.finish()
	p.Features = append(p.Features, "wide")
	sortStrings(p.Features)
	return p
}

// ParMatrixSize is the number of programs GenParMatrix enumerates.
const ParMatrixSize = 4 + 4 + 40 + 20

// GenParMatrix enumerates, deterministically, one Parallel per signature
// variant of every kind of user function: Task and Tasks functions (ctx x
// error), Slice functions (index/no index x ctx x error) and Map functions
// (ctx x error), each without an End hook and with an End hook in its four
// signatures (ctx x error). Every program also holds one plain bystander task.
func GenParMatrix(i int, name string, o GenOpts) *Program {
	r := NewRand(uint64(i), 0x9A7)
	g := &flowGen{r: r, o: o, p: &Program{Name: name}, basic: map[TKind]bool{}}
	p := g.p
	p.Types = []TKind{KNamedInt}
	pr := &Par{}
	p.Par = pr
	bit := func(v, k int) bool { return v>>k&1 == 1 }
	elemKinds := []TKind{KNamedInt, KStruct, KPtr, KU64, KStr, KI64}
	mkColl := func(isMap, hasIndex bool, v, end int) PItem {
		c := &Coll{IsMap: isMap, Slot: 0, HasIndex: hasIndex || isMap, ElemKind: elemKinds[i%len(elemKinds)], Named: i%5 == 0, IntKey: i%3 == 0}
		role, erole, kind := "slice", "send", "slice"
		if isMap {
			role, erole, kind = "map", "mend", "map"
		}
		c.Fn = g.newFn(role)
		c.Fn.Ctx, c.Fn.Err = bit(v, 0), bit(v, 1)
		if end > 0 {
			e := g.newFn(erole)
			e.Ctx, e.Err = bit(end-1, 0), bit(end-1, 1)
			c.End = &e
		}
		return PItem{Kind: kind, Coll: c}
	}
	switch {
	case i < 4:
		f := g.newFn("ptask")
		f.Ctx, f.Err = bit(i, 0), bit(i, 1)
		pr.Items = append(pr.Items, PItem{Kind: "task", Fns: []Fn{f}})
	case i < 8:
		f1, f2 := g.newFn("ptask"), g.newFn("ptask")
		f1.Ctx, f1.Err = bit(i, 0), bit(i, 1)
		f2.Ctx, f2.Err = bit(i, 1), bit(i, 0)
		pr.Items = append(pr.Items, PItem{Kind: "tasks", Fns: []Fn{f1, f2}})
	case i < 48:
		k := i - 8 // 2 x 4 x 5
		pr.Items = append(pr.Items, mkColl(false, k%2 == 0, (k/2)%4, k/8))
	default:
		k := i - 48 // 4 x 5
		pr.Items = append(pr.Items, mkColl(true, true, k%4, k/4))
	}
	by := g.newFn("ptask")
	by.Err = i%2 == 0
	pr.Items = append(pr.Items, PItem{Kind: "task", Fns: []Fn{by}})
	hasEnd := pr.Items[0].Coll != nil && pr.Items[0].Coll.End != nil
	switch o.ForceCOE {
	case 1:
		pr.COE = !hasEnd
	case 2:
		pr.COE = false
	default:
		pr.COE = !hasEnd && i%2 == 1
	}
	pr.Concurrency = i%3 != 0
	pr.OptOrder = r.Perm(3 + len(pr.Items))
	g.finish()
	return p
}

func contains(xs []int, x int) bool {
	for _, y := range xs {
		if y == x {
			return true
		}
	}
	return false
}

func shuffle(r *Rand, xs []int) {
	for i := len(xs) - 1; i > 0; i-- {
		j := r.Intn(i + 1)
		xs[i], xs[j] = xs[j], xs[i]
	}
}

func sortStrings(s []string) {
	for i := 1; i < len(s); i++ {
		for j := i; j > 0 && s[j] < s[j-1]; j-- {
			s[j], s[j-1] = s[j-1], s[j]
		}
	}
}

// hasStructFallback: some task with FallbackWith has an output of kind KStruct.
func (p *Program) hasStructFallback() bool {
	if p.Flow == nil {
		return false
	}
	for i := range p.Flow.Tasks {
		t := &p.Flow.Tasks[i]
		if !t.Fallback {
			continue
		}
		for _, o := range t.Fn.Outs {
			if p.Types[o] == KStruct {
				return true
			}
		}
	}
	return false
}

// ConstFB reports whether the fallback value of type id is written as a
// constant expression (no execution number in its token).
func (p *Program) ConstFB(id int) bool {
	return p.Types[id] == KF64 || p.FBLit && p.Types[id] == KStruct
}
