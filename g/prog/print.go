package prog

import (
	"encoding/json"
	"fmt"
	"math"
	"regexp"
	"sort"
	"strconv"
	"strings"
)

// ShadowNames are identifiers the generated code introduces inside the closure
// it puts in place of a directive.
var ShadowNames = []string{"err", "sched", "tasks", "emitter", "task0", "v1", "flowInfo", "startTime", "schedEmitter", "v2", "flowEmitter", "schedInfo", "task1", "ctx"}

// shadowName is the name of the i-th shadowing variable of the program: the
// list is rotated by a per-program offset so that, over a corpus, every name
// is used.
func (p *Program) shadowName(i int) string {
	return ShadowNames[(p.nameOffset()+i)%len(ShadowNames)]
}

// ShadowName is exported for messages.
func (p *Program) ShadowName(i int) string { return p.shadowName(i) }

func (p *Program) nameOffset() int {
	h := 0
	for _, c := range p.Name {
		h = h*31 + int(c)
	}
	if h < 0 {
		h = -h
	}
	return h
}

// TypeExpr is the Go type expression of value type id.
func (p *Program) TypeExpr(id int) string {
	switch p.Types[id] {
	case KNamedInt, KStruct, KNamedSlice, KAlias:
		return fmt.Sprintf("T%d", id)
	case KPtr:
		return fmt.Sprintf("*T%ds", id)
	case KSlice:
		return fmt.Sprintf("[]T%de", id)
	case KMap:
		return fmt.Sprintf("map[string]T%de", id)
	case KGeneric:
		return fmt.Sprintf("G[T%de]", id)
	case KU64:
		return "uint64"
	case KI64:
		return "int64"
	case KStr:
		return "string"
	case KArr:
		return "[2]uint64"
	case KBytes:
		return "[]byte"
	case KAny:
		return "interface{}"
	case KFuncT:
		return "func(n int) int"
	case KAnon:
		return "struct{ V uint64 }"
	case KF64:
		return "float64"
	case KTwinA:
		return "ma.U"
	case KTwinB:
		return "mb.U"
	case KExt:
		return fmt.Sprintf("hb.X%d", id)
	case KExtPtr:
		return fmt.Sprintf("*hb.X%d", id)
	case KVis:
		return fmt.Sprintf("%s.Y%d", p.hcName(), id)
	case KVisPtr:
		return fmt.Sprintf("*%s.Y%d", p.hcName(), id)
	}
	panic("kind")
}

// hcName / haName: the names under which the program's file imports its
// helper packages. Inside the helper package ha they keep their own names.
func (p *Program) hcName() string {
	if p.AliasImports && !p.inHelper {
		return "vis"
	}
	return "hc"
}

func (p *Program) haName() string {
	if p.AliasImports {
		return "fns"
	}
	return "ha"
}

// TypeExprIn is the spelling of type id where a function consumes it: for the
// kinds that have two spellings of one type, the other one.
func (p *Program) TypeExprIn(id int) string {
	switch p.Types[id] {
	case KBytes:
		return "[]uint8"
	case KAny:
		return "any"
	case KFuncT:
		return "func(int) int"
	case KAlias:
		return fmt.Sprintf("A%d", id)
	}
	return p.TypeExpr(id)
}

// mkExpr / unExpr wrap a token into / unwrap it from type id. In the program's
// own file the generated mkT/unT helpers do it; the helper package ha has to
// spell it out (it cannot import the program's package).
func (p *Program) mkExpr(id int, tok string, helper bool) string {
	if !helper {
		return fmt.Sprintf("mkT%d(%s)", id, tok)
	}
	switch p.Types[id] {
	case KU64:
		return tok
	case KI64:
		return "int64(" + tok + ")"
	case KStr:
		return "rt.TokStr(" + tok + ")"
	case KArr:
		return "[2]uint64{" + tok + ", " + tok + "}"
	case KExt, KExtPtr:
		return fmt.Sprintf("hb.MkX%d(%s)", id, tok)
	case KVis, KVisPtr:
		return fmt.Sprintf("hc.MkY%d(%s)", id, tok)
	}
	panic("helper package cannot name a type of the program's package")
}

func (p *Program) unExpr(id int, v string, helper bool) string {
	if !helper {
		return fmt.Sprintf("unT%d(%s)", id, v)
	}
	switch p.Types[id] {
	case KU64:
		return v
	case KI64:
		return "uint64(" + v + ")"
	case KStr:
		return "rt.StrTok(" + v + ")"
	case KArr:
		return v + "[0]"
	case KExt, KExtPtr:
		return fmt.Sprintf("hb.UnX%d(%s)", id, v)
	case KVis, KVisPtr:
		return fmt.Sprintf("hc.UnY%d(%s)", id, v)
	}
	panic("helper package cannot name a type of the program's package")
}

// extDecl declares type id in its helper package (hb: X, hc: Y).
func (p *Program) extDecl(id int) string {
	n, ptr := "X", false
	switch p.Types[id] {
	case KExtPtr:
		ptr = true
	case KVis:
		n = "Y"
	case KVisPtr:
		n, ptr = "Y", true
	}
	if ptr {
		return fmt.Sprintf("type %[1]s%[2]d struct{ V uint64 }\n\nfunc Mk%[1]s%[2]d(v uint64) *%[1]s%[2]d {\n\tif v == 0 {\n\t\treturn nil\n\t}\n\treturn &%[1]s%[2]d{V: v}\n}\n\nfunc Un%[1]s%[2]d(x *%[1]s%[2]d) uint64 {\n\tif x == nil {\n\t\treturn 0\n\t}\n\treturn x.V\n}\n\n", n, id)
	}
	return fmt.Sprintf("type %[1]s%[2]d struct {\n\tV uint64\n\tpad string\n}\n\nfunc Mk%[1]s%[2]d(v uint64) %[1]s%[2]d { return %[1]s%[2]d{V: v} }\n\nfunc Un%[1]s%[2]d(x %[1]s%[2]d) uint64 { return x.V }\n\n", n, id)
}

func (p *Program) typeDecls(b *strings.Builder) {
	generic := false
	for id := 1; id < len(p.Types); id++ {
		te := p.TypeExpr(id)
		switch p.Types[id] {
		case KNamedInt:
			fmt.Fprintf(b, "type T%d uint64\n\nfunc mkT%d(v uint64) %s { return T%d(v) }\nfunc unT%d(x %s) uint64 { return uint64(x) }\n\n", id, id, te, id, id, te)
		case KStruct:
			if p.FBLit {
				// (a value whose E is not nil shows as the complement of its token)
				fmt.Fprintf(b, "type T%d struct {\n\tV uint64\n\tS string\n\tE error\n}\n\nfunc mkT%d(v uint64) %s { return T%d{V: v} }\nfunc unT%d(x %s) uint64 {\n\tif x.E != nil {\n\t\treturn ^x.V\n\t}\n\treturn x.V\n}\n\n", id, id, te, id, id, te)
				continue
			}
			fmt.Fprintf(b, "type T%d struct {\n\tV uint64\n\tS string\n}\n\nfunc mkT%d(v uint64) %s { return T%d{V: v} }\nfunc unT%d(x %s) uint64 { return x.V }\n\n", id, id, te, id, id, te)
		case KPtr:
			fmt.Fprintf(b, "type T%ds struct{ V uint64 }\n\nfunc mkT%d(v uint64) %s {\n\tif v == 0 {\n\t\treturn nil\n\t}\n\treturn &T%ds{V: v}\n}\nfunc unT%d(x %s) uint64 {\n\tif x == nil {\n\t\treturn 0\n\t}\n\treturn x.V\n}\n\n", id, id, te, id, id, te)
		case KSlice:
			fmt.Fprintf(b, "type T%de uint64\n\nfunc mkT%d(v uint64) %s {\n\tif v == 0 {\n\t\treturn nil\n\t}\n\treturn []T%de{T%de(v), 7}\n}\nfunc unT%d(x %s) uint64 {\n\tif len(x) == 0 {\n\t\treturn 0\n\t}\n\treturn uint64(x[0])\n}\n\n", id, id, te, id, id, id, te)
		case KNamedSlice:
			fmt.Fprintf(b, "type T%d []uint64\n\nfunc mkT%d(v uint64) %s {\n\tif v == 0 {\n\t\treturn nil\n\t}\n\treturn T%d{v}\n}\nfunc unT%d(x %s) uint64 {\n\tif len(x) == 0 {\n\t\treturn 0\n\t}\n\treturn x[0]\n}\n\n", id, id, te, id, id, te)
		case KMap:
			fmt.Fprintf(b, "type T%de uint64\n\nfunc mkT%d(v uint64) %s {\n\tif v == 0 {\n\t\treturn nil\n\t}\n\treturn map[string]T%de{\"v\": T%de(v)}\n}\nfunc unT%d(x %s) uint64 { return uint64(x[\"v\"]) }\n\n", id, id, te, id, id, id, te)
		case KGeneric:
			generic = true
			fmt.Fprintf(b, "type T%de uint64\n\nfunc mkT%d(v uint64) %s { return G[T%de]{V: v} }\nfunc unT%d(x %s) uint64 { return x.V }\n\n", id, id, te, id, id, te)
		case KU64:
			fmt.Fprintf(b, "func mkT%d(v uint64) uint64 { return v }\nfunc unT%d(x uint64) uint64 { return x }\n\n", id, id)
		case KI64:
			fmt.Fprintf(b, "func mkT%d(v uint64) int64 { return int64(v) }\nfunc unT%d(x int64) uint64 { return uint64(x) }\n\n", id, id)
		case KStr:
			fmt.Fprintf(b, "func mkT%d(v uint64) string { return rt.TokStr(v) }\nfunc unT%d(x string) uint64 { return rt.StrTok(x) }\n\n", id, id)
		case KArr:
			fmt.Fprintf(b, "func mkT%d(v uint64) [2]uint64 { return [2]uint64{v, v} }\nfunc unT%d(x [2]uint64) uint64 { return x[0] }\n\n", id, id)
		case KBytes:
			fmt.Fprintf(b, "func mkT%d(v uint64) []byte {\n\tif v == 0 {\n\t\treturn nil\n\t}\n\tb := make([]byte, 8)\n\tfor i := range b {\n\t\tb[i] = byte(v >> (8 * uint(i)))\n\t}\n\treturn b\n}\nfunc unT%d(x []uint8) uint64 {\n\tvar v uint64\n\tfor i := 0; i < len(x) && i < 8; i++ {\n\t\tv |= uint64(x[i]) << (8 * uint(i))\n\t}\n\treturn v\n}\n\n", id, id)
		case KAny:
			fmt.Fprintf(b, "func mkT%d(v uint64) interface{} {\n\tif v == 0 {\n\t\treturn nil\n\t}\n\treturn v\n}\nfunc unT%d(x any) uint64 {\n\tv, _ := x.(uint64)\n\treturn v\n}\n\n", id, id)
		case KFuncT:
			fmt.Fprintf(b, "func mkT%d(v uint64) func(n int) int {\n\tif v == 0 {\n\t\treturn nil\n\t}\n\treturn func(n int) int { return int(v) + n }\n}\nfunc unT%d(x func(int) int) uint64 {\n\tif x == nil {\n\t\treturn 0\n\t}\n\treturn uint64(x(0))\n}\n\n", id, id)
		case KF64:
			fmt.Fprintf(b, "func mkT%d(v uint64) float64 { return math.Float64frombits(v) }\nfunc unT%d(x float64) uint64 { return math.Float64bits(x) }\n\n", id, id)
		case KTwinA, KTwinB:
			fmt.Fprintf(b, "func mkT%d(v uint64) %s { return %s{V: v} }\nfunc unT%d(x %s) uint64 { return x.V }\n\n", id, te, te, id, te)
		case KAlias:
			fmt.Fprintf(b, "type T%d struct {\n\tV uint64\n\tS string\n}\n\ntype A%d = T%d\n\nfunc mkT%d(v uint64) %s { return T%d{V: v} }\nfunc unT%d(x A%d) uint64 { return x.V }\n\n", id, id, id, id, te, id, id, id)
		case KAnon:
			fmt.Fprintf(b, "func mkT%d(v uint64) struct{ V uint64 } { return struct{ V uint64 }{V: v} }\nfunc unT%d(x struct{ V uint64 }) uint64 { return x.V }\n\n", id, id)
		case KVis, KVisPtr:
			fmt.Fprintf(b, "func mkT%d(v uint64) %s { return %s.MkY%d(v) }\nfunc unT%d(x %s) uint64 { return %s.UnY%d(x) }\n\n", id, te, p.hcName(), id, id, te, p.hcName(), id)
		case KExt, KExtPtr:
			// declared in hb, which this file must not import: no helpers here
		}
	}
	if generic {
		b.WriteString("type G[X any] struct {\n\tV uint64\n\tX X\n}\n\n")
	}
}

// element types of collections
func elemExpr(c *Coll) string {
	switch c.ElemKind {
	case KNamedInt, KStruct:
		return fmt.Sprintf("E%d", c.Slot)
	case KPtr:
		return fmt.Sprintf("*E%d", c.Slot)
	case KU64:
		return "uint64"
	case KI64:
		return "int64"
	case KStr:
		return "string"
	}
	panic("elem kind")
}

func keyExpr(c *Coll) string {
	if c.IntKey {
		return "int"
	}
	return "string"
}

func collExpr(c *Coll) string {
	if c.Named {
		return fmt.Sprintf("C%d", c.Slot)
	}
	if c.IsMap {
		return fmt.Sprintf("map[%s]%s", keyExpr(c), elemExpr(c))
	}
	return "[]" + elemExpr(c)
}

func collDecls(b *strings.Builder, c *Coll) {
	s := c.Slot
	ee := elemExpr(c)
	switch c.ElemKind {
	case KNamedInt:
		fmt.Fprintf(b, "type E%d uint64\n\nfunc mkE%d(v uint64) %s { return E%d(v) }\nfunc unE%d(x %s) uint64 { return uint64(x) }\n\n", s, s, ee, s, s, ee)
	case KStruct:
		fmt.Fprintf(b, "type E%d struct{ V uint64 }\n\nfunc mkE%d(v uint64) %s { return E%d{V: v} }\nfunc unE%d(x %s) uint64 { return x.V }\n\n", s, s, ee, s, s, ee)
	case KPtr:
		fmt.Fprintf(b, "type E%d struct{ V uint64 }\n\nfunc mkE%d(v uint64) %s { return &E%d{V: v} }\nfunc unE%d(x %s) uint64 { return x.V }\n\n", s, s, ee, s, s, ee)
	case KU64:
		fmt.Fprintf(b, "func mkE%d(v uint64) uint64 { return v }\nfunc unE%d(x uint64) uint64 { return x }\n\n", s, s)
	case KI64:
		fmt.Fprintf(b, "func mkE%d(v uint64) int64 { return int64(v) }\nfunc unE%d(x int64) uint64 { return uint64(x) }\n\n", s, s)
	case KStr:
		fmt.Fprintf(b, "func mkE%d(v uint64) string { return rt.TokStr(v) }\nfunc unE%d(x string) uint64 { return rt.StrTok(x) }\n\n", s, s)
	}
	if c.Named {
		if c.IsMap {
			fmt.Fprintf(b, "type C%d map[%s]%s\n\n", s, keyExpr(c), ee)
		} else {
			fmt.Fprintf(b, "type C%d []%s\n\n", s, ee)
		}
	}
	ce := collExpr(c)
	if c.IsMap {
		key := "rt.TokKey(uint64(i))"
		if c.IntKey {
			key = "i"
		}
		fmt.Fprintf(b, "func mkC%d(toks []uint64) %s {\n\tif toks == nil {\n\t\treturn nil\n\t}\n\tm := make(%s, len(toks))\n\tfor i, v := range toks {\n\t\tm[%s] = mkE%d(v)\n\t}\n\treturn m\n}\n\n", s, ce, ce, key, s)
	} else {
		fmt.Fprintf(b, "func mkC%d(toks []uint64) %s {\n\tif toks == nil {\n\t\treturn nil\n\t}\n\tm := make(%s, len(toks))\n\tfor i, v := range toks {\n\t\tm[i] = mkE%d(v)\n\t}\n\treturn m\n}\n\n", s, ce, ce, s)
	}
}

type printer struct {
	p            *Program
	site         int
	decls        strings.Builder // top-level declarations (functions, methods)
	pre          strings.Builder // statements before the directive
	helper       strings.Builder // functions of the helper package ha (spelling SpImport)
	poison       strings.Builder // Bare programs: assignments run when the first user function is entered
	nbare        int
	hasMethodVal bool
	midAvail     string // BareMix: the poison assignments an argument call of the current option runs
}

// wp prints an argument expression. In a Bare program the expression is bound
// to a local variable first and the bare identifier is passed; poison (an
// expression of the same type, "" for none) is assigned to that variable as
// soon as the first user function is entered.
func (pr *printer) wp(expr, poison string) string {
	if !pr.p.Bare {
		return pr.w(expr)
	}
	if m := pr.p.BareMix; m > 0 && pr.nbare > 0 && pr.site%m == m-1 {
		// a call in the middle of the bare identifiers; it poisons the
		// variables of the options before this one
		s := fmt.Sprintf("rt.AP(x, %d, %s, func() {\n%s\t})", pr.site, expr, pr.midAvail)
		pr.site++
		return s
	}
	name := fmt.Sprintf("b%d", pr.nbare)
	if pr.p.Shadow && pr.nbare < len(bareShadowNames) {
		name = bareShadowNames[(pr.p.nameOffset()+pr.nbare)%len(bareShadowNames)]
	}
	pr.nbare++
	fmt.Fprintf(&pr.pre, "\t%s := %s\n", name, expr)
	if poison != "" {
		fmt.Fprintf(&pr.poison, "\t\t%s = %s\n", name, poison)
	} else {
		fmt.Fprintf(&pr.poison, "\t\t_ = %s\n", name)
	}
	pr.site++
	return name
}

// PkgVarColl: is collection c handed to the directive as a package-level
// variable of the helper package pv? (Its type must be nameable there.)
func (p *Program) PkgVarColl(c *Coll) bool {
	if p.Bare || p.Wrap || c.Named || (p.nameOffset()/37)%2 != 0 {
		return false
	}
	switch c.ElemKind {
	case KU64, KI64, KStr:
		return true
	}
	return false
}

func (p *Program) anyPkgVarColl() bool {
	if p.Par == nil {
		return false
	}
	for i := range p.Par.Items {
		if c := p.Par.Items[i].Coll; c != nil && p.PkgVarColl(c) {
			return true
		}
	}
	return false
}

func (p *Program) hasKind(k TKind) bool {
	for id := 1; id < len(p.Types); id++ {
		if p.Types[id] == k {
			return true
		}
	}
	return false
}

func (pr *printer) concArg() string {
	if pr.p.ConstConc > 0 {
		return "concK"
	}
	return pr.wp("x.Conc()", "")
}

// constFiles: the two declarations of the constants a ConstConc / ConstCOE
// program (and its guest, suffix Z) passes to its directive.
func (p *Program) constFiles(out map[string]string) {
	var gen, run strings.Builder
	add := func(q *Program, suf string) {
		if q.ConstConc > 0 {
			other := q.ConstConc + 5
			if q.nameOffset()%2 == 0 {
				other = 1
			}
			fmt.Fprintf(&gen, "const concK%s = %d\n", suf, other)
			fmt.Fprintf(&run, "const concK%s = %d\n", suf, q.ConstConc)
		}
		if q.ConstCOE > 0 {
			fmt.Fprintf(&gen, "const coeK%s = %v\n", suf, q.ConstCOE == 2)
			fmt.Fprintf(&run, "const coeK%s = %v\n", suf, q.ConstCOE == 1)
		}
	}
	add(p, "")
	if p.Guest != nil {
		add(p.Guest, "Z")
	}
	if gen.Len() == 0 {
		return
	}
	out["kseen.go"] = "//go:build cff\n\npackage " + p.Name + "\n\n// what the generator sees\n" + gen.String()
	out["kbuilt.go"] = "//go:build !cff\n\npackage " + p.Name + "\n\n// what the program is built with\n" + run.String()
}

func (pr *printer) fnPoisonIf(f *Fn, c *Coll) string {
	if !pr.p.Bare || f.Spell == SpImport {
		return ""
	}
	return pr.fnPoison(f, c)
}

// fnPoison prints the poisoned twin of f: same signature, id + PoisonFn.
func (pr *printer) fnPoison(f *Fn, c *Coll) string {
	g := *f
	g.ID += PoisonFn
	g.Spell = SpLit
	params, results, body := pr.fnParts(&g, c)
	return fmt.Sprintf("func(%s)%s {\n%s\t\t}", params, results, indent(indent(body)))
}

// bareShadowNames: identifiers of the generated code that user variables of a
// Bare+Shadow program are named after.
var bareShadowNames = []string{"parallelInfo", "directiveInfo", "parallelEmitter", "taskEmitter", "recovered", "stacktrace", "job", "run", "fn", "val", "key", "idx", "t", "v", "p", "flow", "parallel", "task2", "task3", "v3", "v4"}

func (pr *printer) w(expr string) string {
	if !pr.p.Wrap {
		return expr
	}
	s := fmt.Sprintf("rt.A(x, %d, %s)", pr.site, expr)
	pr.site++
	return s
}

// sig returns the Go signature text and the stub body for f. xexpr is how the
// body reaches its *rt.Exec.
func (pr *printer) fnParts(f *Fn, c *Coll) (params, results, body string) {
	p := pr.p
	var ps []string
	ctxArg := "nil"
	if f.Ctx {
		ps = append(ps, "ctx context.Context")
		ctxArg = "ctx"
	}
	var args []string
	switch f.Role {
	case "slice":
		if c.HasIndex {
			ps = append(ps, "i int")
			args = append(args, "uint64(i)")
		}
		ps = append(ps, "v "+elemExpr(c))
		args = append(args, fmt.Sprintf("unE%d(v)", c.Slot))
	case "map":
		ps = append(ps, "k "+keyExpr(c))
		if c.IntKey {
			args = append(args, "uint64(k)")
		} else {
			args = append(args, "rt.KeyTok(k)")
		}
		ps = append(ps, "v "+elemExpr(c))
		args = append(args, fmt.Sprintf("unE%d(v)", c.Slot))
	default:
		for i, in := range f.Ins {
			ps = append(ps, fmt.Sprintf("a%d %s", i, p.TypeExprIn(in)))
			args = append(args, p.unExpr(in, fmt.Sprintf("a%d", i), f.Spell == SpImport))
		}
	}
	var rs []string
	var rets []string
	if f.Role == "pred" {
		rs = append(rs, "bool")
		rets = append(rets, "r.Bool()")
	}
	for i, out := range f.Outs {
		rs = append(rs, p.TypeExpr(out))
		rets = append(rets, p.mkExpr(out, fmt.Sprintf("r.Out(%d)", i), f.Spell == SpImport))
	}
	if f.Err {
		rs = append(rs, "error")
		rets = append(rets, "r.Err")
	}
	params = strings.Join(ps, ", ")
	switch len(rs) {
	case 0:
	case 1:
		results = " " + rs[0]
	default:
		results = " (" + strings.Join(rs, ", ") + ")"
	}
	var xexpr string
	switch f.Spell {
	case SpLit, SpVar:
		xexpr = "x"
	case SpMethod, SpMethodVal:
		xexpr = "h.x"
	default:
		xexpr = "rt.Find(" + strings.Join(append([]string{ctxArg}, args...), ", ") + ")"
	}
	call := fmt.Sprintf("%s.Call(%s)", xexpr, strings.Join(append([]string{ctxArg, fmt.Sprint(f.ID)}, args...), ", "))
	// A function literal given to the directive may use any variable of the
	// enclosing function - also one named like an identifier of the generated
	// code. In Shadow programs every literal reads the first such variable and
	// reports what it saw.
	seen := ""
	if (f.Spell == SpLit || f.Spell == SpVar) && p.Shadow && !p.Bare && p.Flow != nil && len(p.Flow.Params) > 0 && f.ID < PoisonFn {
		if name := p.shadowName(0); name != "ctx" || !f.Ctx {
			seen = fmt.Sprintf("\tx.Seen(%d, unT%d(%s))\n", f.ID, p.Flow.Params[0], name)
		}
	}
	if len(rets) == 0 {
		body = seen + "\t" + call + "\n"
	} else if seen != "" {
		body = seen + "\tr := " + call + "\n\treturn " + strings.Join(rets, ", ") + "\n"
	} else {
		body = "\tr := " + call + "\n\treturn " + strings.Join(rets, ", ") + "\n"
	}
	return
}

// fnExpr declares what the spelling needs and returns the expression used in
// the directive.
func (pr *printer) fnExpr(f *Fn, c *Coll) string {
	pr.p.inHelper = f.Spell == SpImport // signatures inside ha name hc by its own name
	params, results, body := pr.fnParts(f, c)
	pr.p.inHelper = false
	switch f.Spell {
	case SpLit:
		return fmt.Sprintf("func(%s)%s {\n%s}", params, results, indent(body))
	case SpVar:
		fmt.Fprintf(&pr.pre, "\tf%d := func(%s)%s {\n%s\t}\n", f.ID, params, results, indent(body))
		return fmt.Sprintf("f%d", f.ID)
	case SpMethod:
		fmt.Fprintf(&pr.decls, "func (h *hands) F%d(%s)%s {\n%s}\n\n", f.ID, params, results, body)
		return fmt.Sprintf("h.F%d", f.ID)
	case SpMethodVal:
		if !pr.hasMethodVal {
			pr.hasMethodVal = true
			// The method value hv.Vn copies *hv when it is evaluated - with the
			// directive's arguments. The program overwrites *hv when the first user
			// function is entered: a method value bound later carries late = true.
			pr.decls.WriteString("type handsV struct {\n\tx    *rt.Exec\n\tlate bool\n}\n\n")
			pr.pre.WriteString("\thv := &handsV{x: x}\n\tx.SetPoison(func() { *hv = handsV{x: x, late: true} })\n")
		}
		fmt.Fprintf(&pr.decls, "func (h handsV) V%d(%s)%s {\n\tif h.late {\n\t\th.x.NoteLate(\"the method value hv.V%d was evaluated after the first user function had started: its receiver is a copy of *hv made by then\")\n\t}\n%s}\n\n", f.ID, params, results, f.ID, body)
		return fmt.Sprintf("hv.V%d", f.ID)
	case SpGeneric:
		fmt.Fprintf(&pr.decls, "func genF%d[Q any](%s)%s {\n%s}\n\n", f.ID, params, results, body)
		return fmt.Sprintf("genF%d[int]", f.ID)
	case SpImport:
		fmt.Fprintf(&pr.helper, "func F%d(%s)%s {\n%s}\n\n", f.ID, params, results, body)
		return fmt.Sprintf("%s.F%d", pr.p.haName(), f.ID)
	default: // SpTop
		fmt.Fprintf(&pr.decls, "func topF%d(%s)%s {\n%s}\n\n", f.ID, params, results, body)
		return fmt.Sprintf("topF%d", f.ID)
	}
}

func indent(s string) string {
	lines := strings.Split(strings.TrimRight(s, "\n"), "\n")
	for i := range lines {
		lines[i] = "\t" + lines[i]
	}
	return strings.Join(lines, "\n") + "\n"
}

func (pr *printer) emitterOpts(shape []int) []string {
	var out []string
	n := 0
	for _, k := range shape {
		var e string
		for q := k - 1; q >= 0; q-- {
			cur := fmt.Sprintf("x.Emitter(%d)", n+q)
			if q == k-1 {
				if k == 1 {
					e = cur
				} else {
					e = fmt.Sprintf("cff.EmitterStack(%s)", cur)
				}
			} else {
				e = fmt.Sprintf("cff.EmitterStack(%s, %s)", cur, e)
			}
		}
		n += k
		if p := pr.p; !p.Bare && !p.Wrap && (p.nameOffset()/29)%2 == 0 {
			// the emitter is a field of a struct value: WithEmitter(eh0.emitter),
			// WithEmitter(eh1.emitter) - the same field of different values
			if len(out) == 0 {
				pr.decls.WriteString("type emHolder struct{ emitter cff.Emitter }\n\n")
				fmt.Fprintf(&pr.pre, "\tehs := make([]emHolder, %d)\n", len(shape))
			}
			fmt.Fprintf(&pr.pre, "\tehs[%d].emitter = %s\n", len(out), e)
			e = fmt.Sprintf("ehs[%d].emitter", len(out))
		}
		out = append(out, e)
	}
	return out
}

type opt struct {
	rank int
	gen  func() string // called in final order so that sites follow source order
}

func (pr *printer) orderOpts(opts []opt) []string {
	sort.SliceStable(opts, func(i, j int) bool { return opts[i].rank < opts[j].rank })
	var out []string
	base := pr.poison.Len() // (the context argument's variable comes before)
	for _, o := range opts {
		// What an argument call of this option may overwrite: the argument
		// variables of the options before it. Go fixes the order of calls, and an
		// option is a call whose operands are read before it is made; when a plain
		// variable is read relative to a call in the *same* call expression (the
		// same option, or the directive's own first argument) is not specified,
		// so those are left alone.
		pr.midAvail = pr.poison.String()[base:]
		out = append(out, o.gen())
	}
	pr.midAvail = ""
	return out
}

var guestIdent = regexp.MustCompile(`\b(T\d+[es]?|A\d+|mkT\d+|unT\d+|E\d+|mkE\d+|unE\d+|C\d+|mkC\d+|G|hands|handsV|emHolder|Run|runG|runV|topF\d+|genF\d+|resHolder|desc|concK|coeK)\b`)

// guestSource prints program g for inclusion in the file of program host: the
// declarations of g's own file (everything after its imports) with every
// package-level identifier renamed, so that the file holds two directives.
func guestSource(g *Program, host string) string {
	g.Host = host
	pr := &printer{p: g}
	src := pr.source()
	if pr.helper.Len() > 0 {
		panic("a guest program cannot have helper packages")
	}
	i := strings.Index(src, "var _ = context.Background\n")
	body := src[i+len("var _ = context.Background\n"):]
	// the description is a raw string: keep it out of the renaming
	j := strings.Index(body, "const desc = `")
	k := j + len("const desc = `") + strings.Index(body[j+len("const desc = `"):], "`\n")
	descLit := body[j : k+2]
	rest := body[:j] + "\x00DESC\x00" + body[k+2:]
	rest = guestIdent.ReplaceAllString(rest, "${1}Z")
	descLit = strings.Replace(descLit, "const desc", "const descZ", 1)
	rest = strings.Replace(rest, "\x00DESC\x00", descLit, 1)
	return "\n// ---- second directive of this file (program " + g.Name + ") ----\n" + rest
}

// Source prints the program's own file (programs without helper packages).
func (p *Program) Source() string {
	return p.Files("scratch/" + p.Name)["p.go"]
}

// Files prints the program as a cff-tagged Go file p.go plus, when functions
// are imported, its helper packages (ha/ha.go, hb/hb.go, hc/hc.go); base is
// the import path of the program's package.
func (p *Program) Files(base string) map[string]string {
	p.Base = base
	pr := &printer{p: p}
	main := pr.source()
	if p.Guest != nil {
		main += guestSource(p.Guest, p.Name)
	}
	out := map[string]string{"p.go": main}
	p.constFiles(out)
	if p.anyPkgVarColl() {
		var hv strings.Builder
		hv.WriteString("// Package pv holds package-level variables that the program hands to its directive.\npackage pv\n\n")
		for i := range p.Par.Items {
			if c := p.Par.Items[i].Coll; c != nil && p.PkgVarColl(c) {
				fmt.Fprintf(&hv, "var C%d %s\n", c.Slot, collExpr(c))
			}
		}
		out["pv/pv.go"] = hv.String()
	}
	// two packages of one name, each with a type of one name
	if p.hasKind(KTwinA) {
		out["ta/model/m.go"] = "// Package model (a): one of two packages named model.\npackage model\n\ntype U struct{ V uint64 }\n"
	}
	if p.hasKind(KTwinB) {
		out["tb/model/m.go"] = "// Package model (b): one of two packages named model.\npackage model\n\ntype U struct{ V uint64 }\n"
	}
	if pr.helper.Len() == 0 {
		return out
	}
	var hb, hc strings.Builder
	for id := 1; id < len(p.Types); id++ {
		switch p.Types[id] {
		case KExt, KExtPtr:
			hb.WriteString(p.extDecl(id))
		case KVis, KVisPtr:
			hc.WriteString(p.extDecl(id))
		}
	}
	imports := "\t\"context\"\n\n\t\"vg/rt\"\n"
	use := "var _ = context.Background\n\nvar _ = rt.TokStr\n\n"
	if hb.Len() > 0 {
		out["hb/hb.go"] = "// Package hb holds value types that the program's file never imports.\npackage hb\n\n" + hb.String()
		imports += "\t\"" + base + "/hb\"\n"
	}
	if hc.Len() > 0 {
		out["hc/hc.go"] = "// Package hc holds value types that the program's file imports.\npackage hc\n\n" + hc.String()
		imports += "\t\"" + base + "/hc\"\n"
	}
	out["ha/ha.go"] = "// Package ha holds task and predicate functions of the program.\npackage ha\n\nimport (\n" + imports + ")\n\n" + use + pr.helper.String()
	return out
}

func (pr *printer) source() string {
	p := pr.p
	var opts []string
	ctxExpr := ""
	var post strings.Builder
	var resDecl strings.Builder
	directive := "Flow"
	if p.Flow != nil {
		f := p.Flow
		ctxExpr = pr.wp("x.Ctx()", "rt.PoisonCtx(x)")
		if f.ResultsVia {
			// type resHolder struct{ r0 T..; r1 T.. } is declared at package level
			pr.decls.WriteString("type resHolder struct {\n")
			for i, t := range f.Results {
				fmt.Fprintf(&pr.decls, "\tr%d %s\n", i, p.TypeExpr(t))
			}
			pr.decls.WriteString("}\n\n")
			mk := "&resHolder{"
			for i, t := range f.Results {
				if i > 0 {
					mk += ", "
				}
				mk += fmt.Sprintf("r%d: mkT%d(x.Sentinel(%d))", i, t, i)
			}
			mk += "}"
			fmt.Fprintf(&resDecl, "\tres := %s\n\torig := res\n\tx.SetPoison(func() { res = %s })\n", mk, mk)
			for i, t := range f.Results {
				fmt.Fprintf(&post, "\tx.Result(%d, unT%d(orig.r%d))\n", i, t, i)
				fmt.Fprintf(&post, "\tif unT%d(res.r%d) != x.Sentinel(%d) {\n\t\tx.NoteLate(\"the Results target &res.r%d was evaluated after the first user function had started: the result went to the struct res pointed to by then\")\n\t}\n", t, i, i, i)
			}
		} else {
			for i, t := range f.Results {
				fmt.Fprintf(&resDecl, "\tr%d := mkT%d(x.Sentinel(%d))\n", i, t, i)
				fmt.Fprintf(&post, "\tx.Result(%d, unT%d(r%d))\n", i, t, i)
			}
		}
		rank := func(i int) int {
			if i < len(f.OptOrder) {
				return f.OptOrder[i]
			}
			return i
		}
		if p.Shadow {
			// The shadowing variables come first: function literals bound to
			// local variables (spelling SpVar) read them.
			for i := range f.Params {
				fmt.Fprintf(&resDecl, "\t%s := mkT%d(x.Param(%d))\n", p.shadowName(i), f.Params[i], i)
			}
		}
		var os []opt
		if len(f.Params) > 0 {
			mk := func(idx []int) func() string {
				return func() string {
					var a []string
					for _, i := range idx {
						if p.Shadow {
							name := p.shadowName(i) // declared up front, see below
							if p.Bare {
								fmt.Fprintf(&pr.poison, "\t\t%s = mkT%d(x.Poison(%d))\n", name, f.Params[i], pr.site)
								pr.site++
								a = append(a, name)
								continue
							}
							a = append(a, pr.w(name))
							continue
						}
						a = append(a, pr.wp(fmt.Sprintf("mkT%d(x.Param(%d))", f.Params[i], i), fmt.Sprintf("mkT%d(x.Poison(%d))", f.Params[i], pr.site)))
					}
					if p.PadLines && !p.LineDirs && len(a) >= 2 {
						// one argument per line; the second one is marked so that the
						// padding can put it on line 100 (or 1000)
						return "cff.Params(\n\t" + a[0] + ",\n\t\x00" + strings.Join(a[1:], ",\n\t") + ",\n)"
					}
					return "cff.Params(" + strings.Join(a, ", ") + ")"
				}
			}
			all := make([]int, len(f.Params))
			for i := range all {
				all[i] = i
			}
			if f.SplitParams {
				os = append(os, opt{rank(0), mk(all[:1])}, opt{rank(0), mk(all[1:])})
			} else {
				os = append(os, opt{rank(0), mk(all)})
			}
		}
		if len(f.Results) > 0 {
			mk := func(from, to int) func() string {
				return func() string {
					var a []string
					for i := from; i < to; i++ {
						if f.ResultsVia {
							a = append(a, fmt.Sprintf("&res.r%d", i))
							continue
						}
						a = append(a, pr.wp(fmt.Sprintf("&r%d", i), fmt.Sprintf("rt.PoisonPtr(x, &r%d)", i)))
					}
					return "cff.Results(" + strings.Join(a, ", ") + ")"
				}
			}
			switch {
			case f.SplitResults == 0 || len(f.Results) < 2:
				os = append(os, opt{rank(1), mk(0, len(f.Results))})
			case f.SplitResults == 1: // two cff.Results options next to each other
				os = append(os, opt{rank(1), mk(0, 1)}, opt{rank(1), mk(1, len(f.Results))})
			default: // the second one after every other option
				os = append(os, opt{rank(1), mk(0, 1)}, opt{1 << 20, mk(1, len(f.Results))})
			}
		}
		if f.Concurrency {
			os = append(os, opt{rank(2), func() string { return "cff.Concurrency(" + pr.concArg() + ")" }})
		}
		if f.Instrument {
			os = append(os, opt{rank(3), func() string { return "cff.InstrumentFlow(" + pr.wp(`"flow"`, `"POISON"`) + ")" }})
		}
		for i, e := range pr.emitterOpts(f.Emitters) {
			e := e
			os = append(os, opt{rank(4 + i), func() string { return "cff.WithEmitter(" + pr.wp(e, "x.Emitter(rt.PoisonEmitter)") + ")" }})
		}
		for li, ti := range f.Listing {
			t := &f.Tasks[ti]
			os = append(os, opt{rank(4 + len(f.Emitters) + li), func() string { return pr.taskOpt(t) }})
		}
		opts = pr.orderOpts(os)
	} else {
		directive = "Parallel"
		pp := p.Par
		ctxExpr = pr.wp("x.Ctx()", "rt.PoisonCtx(x)")
		rank := func(i int) int {
			if i < len(pp.OptOrder) {
				return pp.OptOrder[i]
			}
			return i
		}
		var os []opt
		if pp.Concurrency {
			os = append(os, opt{rank(0), func() string { return "cff.Concurrency(" + pr.concArg() + ")" }})
		}
		if pp.COE {
			os = append(os, opt{rank(1), func() string {
				if p.ConstCOE > 0 {
					return "cff.ContinueOnError(coeK)"
				}
				return "cff.ContinueOnError(" + pr.wp("x.COE()", "") + ")"
			}})
		}
		if pp.Instrument {
			os = append(os, opt{rank(2), func() string { return "cff.InstrumentParallel(" + pr.wp(`"par"`, `"POISON"`) + ")" }})
		}
		for i, e := range pr.emitterOpts(pp.Emitters) {
			e := e
			os = append(os, opt{rank(3 + i), func() string { return "cff.WithEmitter(" + pr.wp(e, "x.Emitter(rt.PoisonEmitter)") + ")" }})
		}
		for i := range pp.Items {
			it := &pp.Items[i]
			os = append(os, opt{rank(3 + len(pp.Emitters) + i), func() string { return pr.parOpt(it) }})
		}
		opts = pr.orderOpts(os)
	}

	var b strings.Builder
	if p.GoTag != "" {
		fmt.Fprintf(&b, "//go:build cff && %s\n\n", p.GoTag)
	} else {
		b.WriteString("//go:build cff\n\n")
	}
	fmt.Fprintf(&b, "package %s\n\n", p.Name)
	b.WriteString("import (\n\t\"context\"\n")
	if p.hasKind(KF64) {
		b.WriteString("\t\"math\"\n")
	}
	b.WriteString("\n\t\"go.uber.org/cff\"\n")
	if pr.helper.Len() > 0 {
		al := func(n string) string {
			if p.AliasImports {
				return n + " "
			}
			return ""
		}
		fmt.Fprintf(&b, "\t%s\"%s/ha\"\n", al("fns"), p.Base)
		for id := 1; id < len(p.Types); id++ {
			if p.Types[id] == KVis || p.Types[id] == KVisPtr {
				fmt.Fprintf(&b, "\t%s\"%s/hc\"\n", al("vis"), p.Base)
				break
			}
		}
	}
	if p.anyPkgVarColl() {
		fmt.Fprintf(&b, "\t\"%s/pv\"\n", p.Base)
	}
	if p.hasKind(KTwinA) {
		fmt.Fprintf(&b, "\tma \"%s/ta/model\"\n", p.Base)
	}
	if p.hasKind(KTwinB) {
		fmt.Fprintf(&b, "\tmb \"%s/tb/model\"\n", p.Base)
	}
	b.WriteString("\t\"vg/rt\"\n)\n\n")
	b.WriteString("var _ = context.Background\n\n")
	desc, _ := json.Marshal(p)
	fmt.Fprintf(&b, "const desc = `%s`\n\n", desc)
	fmt.Fprintf(&b, "func init() { rt.Register(%q, desc, Run) }\n\n", p.Name)
	p.typeDecls(&b)
	if p.Par != nil {
		for i := range p.Par.Items {
			if c := p.Par.Items[i].Coll; c != nil {
				collDecls(&b, c)
			}
		}
	}
	b.WriteString("type hands struct{ x *rt.Exec }\n\n")
	b.WriteString(pr.decls.String())
	switch {
	case p.Generic:
		b.WriteString("func Run(x *rt.Exec) error { return runG[int](x, 0) }\n\n")
		b.WriteString("func runG[Q any](x *rt.Exec, q Q) (rerr error) {\n")
	case p.InMethod:
		b.WriteString("func Run(x *rt.Exec) error { return (&hands{x}).run(x) }\n\n")
		b.WriteString("func (hh *hands) run(x *rt.Exec) (rerr error) {\n")
	case p.InVarLit:
		b.WriteString("func Run(x *rt.Exec) error { return runV(x) }\n\n")
		b.WriteString("var runV = func(x *rt.Exec) (rerr error) {\n")
	default:
		b.WriteString("func Run(x *rt.Exec) (rerr error) {\n")
	}
	b.WriteString("\th := &hands{x}\n\t_ = h\n")
	if p.FBLit {
		b.WriteString("\tvar err error\n\t_ = err\n")
	}
	b.WriteString(resDecl.String())
	b.WriteString(pr.pre.String())
	if p.Bare {
		b.WriteString("\tx.SetPoison(func() {\n" + pr.poison.String() + "\t})\n")
	}
	if p.PadLines && !p.LineDirs {
		// the directive's first line becomes line 98 (or 998): its arguments
		// straddle a change in the number of digits of the line number
		cur := strings.Count(b.String(), "\n") + 1
		target := 98
		// when a Params option has two arguments, its second argument lands on
		// line 100: the two straddle the change from two to three digits
		joined := ""
		for _, o := range opts {
			joined += indent(indent(o + ","))
		}
		if k := strings.Index(joined, "\x00"); k >= 0 {
			target = 100 - 1 - strings.Count(joined[:k], "\n")
		}
		for target < cur {
			target += 900 // ... or from three to four
		}
		for ; cur < target; cur++ {
			b.WriteString("\t// padding\n")
		}
	}
	fmt.Fprintf(&b, "\trerr = cff.%s(%s,\n", directive, ctxExpr)
	for i, o := range opts {
		if p.LineDirs {
			// what a preprocessor leaves behind: the following lines claim to come
			// from another file, at line numbers that go down
			if (p.nameOffset()/23)%3 == 0 {
				// ... or all at the same place: every option then has the same
				// announced position
				fmt.Fprintf(&b, "//line %s.tmpl:7\n", p.Name)
			} else {
				fmt.Fprintf(&b, "//line %s.tmpl:%d\n", p.Name, 100000-1000*i)
			}
		}
		b.WriteString(strings.ReplaceAll(indent(indent(o+",")), "\x00", ""))
	}
	if p.LineDirs {
		fmt.Fprintf(&b, "//line p.go:%d\n", 100000)
	}
	b.WriteString("\t)\n")
	b.WriteString(post.String())
	b.WriteString("\treturn rerr\n}\n")
	p.NumSites = pr.site
	// NumSites is part of the description: patch it in.
	out := b.String()
	desc2, _ := json.Marshal(p)
	out = strings.Replace(out, string(desc), string(desc2), 1)
	return out
}

func (pr *printer) taskOpt(t *Task) string {
	// The function expression comes first in the source, then the options.
	fe := pr.wp(pr.fnExpr(&t.Fn, nil), pr.fnPoisonIf(&t.Fn, nil))
	type to struct {
		rank int
		gen  func() string
	}
	var tos []to
	rk := func(i int) int {
		if i < len(t.OptOrder) {
			return t.OptOrder[i]
		}
		return i
	}
	if t.Pred != nil {
		tos = append(tos, to{rk(0), func() string {
			return "cff.Predicate(" + pr.wp(pr.fnExpr(t.Pred, nil), pr.fnPoisonIf(t.Pred, nil)) + ")"
		}})
	}
	if t.Fallback {
		tos = append(tos, to{rk(1), func() string {
			var a []string
			for i, o := range t.Fn.Outs {
				if pr.p.Types[o] == KF64 {
					// a constant, written out with all the digits it needs
					a = append(a, strconv.FormatFloat(math.Float64frombits(ConstFBTok(pr.p.Name, t.Fn.ID, i)), 'g', -1, 64))
					continue
				}
				if pr.p.ConstFB(o) {
					// a composite literal without a call, naming the function's own err
					a = append(a, fmt.Sprintf("T%d{V: %#x, E: err}", o, ConstFBTok(pr.p.Name, t.Fn.ID, i)))
					continue
				}
				a = append(a, pr.wp(fmt.Sprintf("mkT%d(x.FB(%d, %d))", o, t.Fn.ID, i), fmt.Sprintf("mkT%d(x.Poison(%d))", o, pr.site)))
			}
			return "cff.FallbackWith(" + strings.Join(a, ", ") + ")"
		}})
	}
	if t.Instrument {
		tos = append(tos, to{rk(2), func() string { return "cff.Instrument(" + pr.wp(fmt.Sprintf(`"f%d"`, t.Fn.ID), `"POISON"`) + ")" }})
	}
	if t.Invoke {
		tos = append(tos, to{rk(3), func() string { return "cff.Invoke(true)" }})
	}
	sort.SliceStable(tos, func(i, j int) bool { return tos[i].rank < tos[j].rank })
	parts := []string{fe}
	for _, o := range tos {
		parts = append(parts, o.gen())
	}
	return "cff.Task(\n" + indent(strings.Join(parts, ",\n")+",") + ")"
}

func (pr *printer) parOpt(it *PItem) string {
	switch it.Kind {
	case "task":
		parts := []string{pr.wp(pr.fnExpr(&it.Fns[0], nil), pr.fnPoisonIf(&it.Fns[0], nil))}
		if it.Instrument {
			parts = append(parts, "cff.Instrument("+pr.wp(fmt.Sprintf(`"f%d"`, it.Fns[0].ID), `"POISON"`)+")")
		}
		return "cff.Task(\n" + indent(strings.Join(parts, ",\n")+",") + ")"
	case "tasks":
		var parts []string
		for i := range it.Fns {
			parts = append(parts, pr.wp(pr.fnExpr(&it.Fns[i], nil), pr.fnPoisonIf(&it.Fns[i], nil)))
		}
		return "cff.Tasks(\n" + indent(strings.Join(parts, ",\n")+",") + ")"
	}
	c := it.Coll
	name, end := "Slice", "SliceEnd"
	if c.IsMap {
		name, end = "Map", "MapEnd"
	}
	fnPart := pr.wp(pr.fnExpr(&c.Fn, c), pr.fnPoisonIf(&c.Fn, c))
	var collPart string
	if pr.p.PkgVarColl(c) {
		// the collection is a package-level variable of another package, given
		// to the directive as pv.Cn; the program overwrites it when the first user
		// function is entered (an argument that is read only then sees that)
		fmt.Fprintf(&pr.pre, "\tpv.C%d = mkC%d(x.Coll(%d))\n\tx.SetPoison(func() { pv.C%d = mkC%d(x.PoisonColl(%d)) })\n", c.Slot, c.Slot, c.Slot, c.Slot, c.Slot, pr.site)
		collPart = fmt.Sprintf("pv.C%d", c.Slot)
	} else {
		collPart = pr.wp(fmt.Sprintf("mkC%d(x.Coll(%d))", c.Slot, c.Slot), fmt.Sprintf("mkC%d(x.PoisonColl(%d))", c.Slot, pr.site))
	}
	parts := []string{fnPart, collPart}
	if c.End != nil {
		parts = append(parts, "cff."+end+"("+pr.wp(pr.fnExpr(c.End, nil), pr.fnPoisonIf(c.End, nil))+")")
	}
	return "cff." + name + "(\n" + indent(strings.Join(parts, ",\n")+",") + ")"
}
