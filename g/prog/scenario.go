package prog

// Outcome kinds.
const (
	OOK = iota
	OErr
	OPanic
	OGoexit
	OCancelOK // the body cancels the directive's context, then succeeds
	OFalse    // predicates only
)

func OName(k int) string {
	return [...]string{"ok", "error", "panic", "goexit", "cancel-ok", "false"}[k]
}

type Outcome struct {
	Kind      int  `json:"k,omitempty"`
	PanicKind int  `json:"pk,omitempty"` // 0 string 1 error 2 struct 3 int 4 nil-map write 5 index out of range 6 slice (not comparable) 7 slice-typed error (not comparable) 8 map (not comparable)
	Delay     int  `json:"d,omitempty"`  // 0 none 1 yields 2 spin microseconds
	DelayArg  int  `json:"da,omitempty"`
	Gate      bool `json:"g,omitempty"`
	Bar       bool `json:"b,omitempty"`
	ErrKind   int  `json:"ek,omitempty"` // errors: 0 pointer, 1 comparable struct value, 2 slice-typed error (not comparable), 3 a wrapped error (fmt.Errorf %w) 4 an error that unwraps to context.DeadlineExceeded 5 fmt.Errorf("...%w", context.Canceled) 6 context.Canceled itself 7 context.DeadlineExceeded itself
	Nest      bool `json:"n,omitempty"`  // the function first runs another program's directive to completion (nested directive)
}

type FnInfo struct {
	NOut    int  `json:"nout,omitempty"`
	Pred    bool `json:"pred,omitempty"`
	Elem    bool `json:"elem,omitempty"`
	NoIndex bool `json:"noindex,omitempty"`
	Err     bool `json:"err,omitempty"`
}

// Scenario is the run-time data of one execution.
type Scenario struct {
	Tag       string                     `json:"tag"`
	Params    []uint64                   `json:"params,omitempty"`
	Sentinels []uint64                   `json:"sentinels,omitempty"`
	Conc      int                        `json:"conc"`
	COE       bool                       `json:"coe,omitempty"`
	Out       map[int]Outcome            `json:"out,omitempty"`
	ElemOut   map[int]map[uint64]Outcome `json:"elem_out,omitempty"`
	Colls     [][]uint64                 `json:"colls,omitempty"`
	CollNil   []bool                     `json:"coll_nil,omitempty"`
	FnInfo    map[int]FnInfo             `json:"-"`
	ReachTgt  int                        `json:"reach_tgt,omitempty"`
	BarrierN  int                        `json:"barrier_n,omitempty"`

	// SlowEmit: every scheduler state report lingers 150 ms in EmitScheduler.
	SlowEmit bool `json:"slow_emit,omitempty"`
	// EmitGoexit: the scheduler state emitter calls runtime.Goexit at its first report.
	EmitGoexit bool `json:"emit_goexit,omitempty"`
	// UserCtx: the directive's context is an implementation of context.Context
	// from outside the standard library (own Done channel).
	UserCtx      bool   `json:"user_ctx,omitempty"`
	FarDeadline  bool   `json:"far_deadline,omitempty"` // the directive's context carries a deadline one hour away
	CancelBefore bool   `json:"cancel_before,omitempty"`
	CancelOnFn   int    `json:"cancel_on_fn,omitempty"` // helper cancels once this function has started
	GateOpen     string `json:"gate_open,omitempty"`    // "", "return", "cancelled", "census"
	Concurrent   int    `json:"concurrent,omitempty"`   // run this many executions of the directive at once
	WatchFns     []int  `json:"watch_fns,omitempty"`    // functions whose first entry is signalled
	GateOnFn     int    `json:"gate_on_fn,omitempty"`   // the gate opens when this function is entered
	// PredGate: {task, predicate, gated provider}: C11's "predicate runs as soon as its own inputs are there".
	PredGate []int `json:"pred_gate,omitempty"`
}

func (s *Scenario) OutcomeOf(fn int, key uint64) Outcome {
	if m, ok := s.ElemOut[fn]; ok {
		if o, ok := m[key]; ok {
			return o
		}
	}
	return s.Out[fn]
}

// H is the value a successful call returns for output i: a hash of the
// function and all its arguments, tagged with the execution id. Never zero.
func H(exec uint64, fn, i int, args []uint64) uint64 {
	h := Mix(uint64(fn)*1000003 + uint64(i)*7919 + 0xABCD)
	for _, a := range args {
		h = Mix(h ^ Mix(a))
	}
	return tag(exec, h)
}

func tag(exec, h uint64) uint64 {
	low := h & (1<<44 - 1)
	if low == 0 {
		low = 1
	}
	if low>>8 == poisonPat {
		low ^= 1 << 40 // ordinary tokens never look like poison
	}
	return exec<<44 | low
}

// NumPanicKinds is the number of kinds of panic values the stubs can raise.
const NumPanicKinds = 10

// Poison tokens mark values that a Bare program stores into its argument
// variables once the first user function has been entered.
const poisonPat = 0xBAD0BAD0B // 36 bits; the low 8 bits carry the site

func PoisonTok(exec uint64, site int) uint64 { return exec<<44 | poisonPat<<8 | uint64(site&0xFF) }

func IsPoison(tok uint64) bool { return (tok&(1<<44-1))>>8 == poisonPat }

// PoisonFn is added to the id of a function to name its poisoned twin.
const PoisonFn = 100000

func ParamTok(exec uint64, i int) uint64    { return tag(exec, Mix(uint64(i)+0x5151)) }
func SentinelTok(exec uint64, i int) uint64 { return tag(exec, Mix(uint64(i)+0x7E57)) }
func FallbackTok(exec uint64, fn, i int) uint64 {
	return tag(exec, Mix(uint64(fn)*131+uint64(i)+0xFB00))
}

// ConstFBTok is the token of a fallback value that the program writes as a
// constant (the same in every execution).
func ConstFBTok(name string, fn, i int) uint64 {
	h := uint64(0)
	for _, c := range name {
		h = h*131 + uint64(c)
	}
	// (execution number 0 is never allocated: a function that has only this
	// token to go by cannot mistake it for another execution's)
	return tag(0, Mix(h^(uint64(fn)*131+uint64(i)+0xCFB0)))
}

func ElemTok(exec uint64, slot, i int) uint64 {
	return tag(exec, Mix(uint64(slot)*100003+uint64(i)+0xE1E))
}

// FnInfos derives the per-function facts Call needs.
func (p *Program) FnInfos() map[int]FnInfo {
	m := map[int]FnInfo{}
	for _, f := range p.AllFns() {
		m[f.ID] = FnInfo{NOut: len(f.Outs), Pred: f.Role == "pred", Elem: f.Role == "slice" || f.Role == "map", Err: f.Err}
	}
	if p.Par != nil {
		for _, it := range p.Par.Items {
			if c := it.Coll; c != nil && !c.IsMap && !c.HasIndex {
				fi := m[c.Fn.ID]
				fi.NoIndex = true
				m[c.Fn.ID] = fi
			}
		}
	}
	return m
}

// ElemKey is the key under which element i of coll is addressed in ElemOut:
// the index (or map key index), or the element token for index-less slices.
func ElemKey(c *Coll, toks []uint64, i int) uint64 {
	if !c.IsMap && !c.HasIndex {
		return toks[i]
	}
	return uint64(i)
}

var collSizes = []int{-1, 0, 1, 1, 2, 2, 3, 7, 7, 16, 64}

func genDelay(r *Rand) (int, int) {
	switch r.Intn(10) {
	case 0, 1, 2, 3, 4:
		return 0, 0
	case 5, 6, 7:
		return 1, 1 + r.Intn(6)
	case 8:
		return 2, 1 + r.Intn(50)
	}
	return 2, 50 + r.Intn(300)
}

// GenScenario builds the scenario (family tag) number idx for one execution of p.
//
//	ok       nothing fails, predicates true
//	pred     nothing fails, predicates true/false
//	fault    a non-empty set of functions fails (error, panic), predicates true/false/panic
//	panic    as fault, panics only
//	goexit   a function kills its goroutine
//	cancel   the context is cancelled before the call / inside a function / by a helper
//	one      exactly one function fails, chosen systematically by the scenario
//	         number k: function k mod n, with an error (when it can return one)
//	         for even k/n and a panic otherwise; for an element function the
//	         first, last or a middle element
func GenScenario(p *Program, r *Rand, exec uint64, tagName string, k int) *Scenario {
	s := &Scenario{Tag: tagName, Out: map[int]Outcome{}, ElemOut: map[int]map[uint64]Outcome{}, FnInfo: p.FnInfos()}
	s.Conc = r.PickInt(0, 1, 1, 2, 2, 3, 4, 8, 64)
	if p.ConstConc > 0 {
		s.Conc = p.ConstConc // the directive's limit is a constant of the program
	}
	s.FarDeadline = exec%4 == 1
	s.UserCtx = exec%4 == 2
	if p.Flow != nil {
		for i := range p.Flow.Params {
			s.Params = append(s.Params, ParamTok(exec, i))
		}
		for i := range p.Flow.Results {
			s.Sentinels = append(s.Sentinels, SentinelTok(exec, i))
		}
	}
	fns := p.AllFns()
	withDelays := r.Chance(2, 3)
	for _, f := range fns {
		var o Outcome
		if withDelays {
			o.Delay, o.DelayArg = genDelay(r)
		}
		s.Out[f.ID] = o
	}
	if p.Par != nil {
		for _, it := range p.Par.Items {
			if c := it.Coll; c != nil {
				n := collSizes[r.Intn(len(collSizes))]
				if r.Chance(1, 40) {
					n = 1000
				}
				if c.End != nil && r.Chance(1, 50) {
					n = 65537 + r.Intn(3000) // more element jobs than a 16-bit counter holds
				}
				for len(s.Colls) <= c.Slot {
					s.Colls = append(s.Colls, nil)
				}
				if n >= 0 {
					toks := make([]uint64, n)
					for i := range toks {
						toks[i] = ElemTok(exec, c.Slot, i)
					}
					s.Colls[c.Slot] = toks
				}
			}
		}
		s.COE = p.Par.COE && !r.Chance(1, 5)
		if p.ConstCOE > 0 {
			s.COE = p.ConstCOE == 1
		}
	}
	predOutcome := func(allowPanic bool) Outcome {
		switch x := r.Intn(10); {
		case x < 5:
			return Outcome{Kind: OOK}
		case x < 8 || !allowPanic:
			return Outcome{Kind: OFalse}
		default:
			return Outcome{Kind: OPanic, PanicKind: r.Intn(NumPanicKinds)}
		}
	}
	failOutcome := func(f *Fn, panicsOnly bool) Outcome {
		if f.Err && !panicsOnly && r.Chance(1, 2) {
			return Outcome{Kind: OErr, ErrKind: r.PickInt(0, 0, 1, 2, 3, 4, 5, 6, 7)}
		}
		return Outcome{Kind: OPanic, PanicKind: r.Intn(NumPanicKinds)}
	}
	keep := func(id int, o Outcome) {
		old := s.Out[id]
		o.Delay, o.DelayArg = old.Delay, old.DelayArg
		s.Out[id] = o
	}
	switch tagName {
	case "ok":
	case "cancel":
		var cand []*Fn
		for _, f := range fns {
			if f.Role == "task" || f.Role == "ptask" {
				cand = append(cand, f)
			}
		}
		switch v := r.Intn(4); {
		case v == 0 || len(cand) == 0:
			s.CancelBefore = true
		case v == 1:
			f := cand[r.Intn(len(cand))]
			// (also a predicate: it cancels, then returns true - its task depends
			// on it and must not start)
			var preds []*Fn
			for _, g := range fns {
				if g.Role == "pred" {
					preds = append(preds, g)
				}
			}
			if len(preds) > 0 && exec%3 == 0 {
				f = preds[int(exec/3)%len(preds)]
			}
			keep(f.ID, Outcome{Kind: OCancelOK})
		case v == 2:
			f := cand[r.Intn(len(cand))]
			s.CancelOnFn = f.ID
			s.WatchFns = []int{f.ID}
		default:
			// prompt return: the function is held until the directive has
			// returned; a helper cancels once it has been entered.
			f := cand[r.Intn(len(cand))]
			o := s.Out[f.ID]
			o.Gate = true
			s.Out[f.ID] = o
			s.CancelOnFn = f.ID
			s.WatchFns = []int{f.ID}
			s.GateOpen = "return"
		}
	case "predgate":
		// A provider of one of the task's own inputs (not needed by the
		// predicate) is held until the predicate has been entered.
		if p.Flow != nil {
			provider := map[int]int{}
			for _, t := range p.Flow.Tasks {
				for _, o := range t.Fn.Outs {
					provider[o] = t.Fn.ID
				}
			}
			for _, t := range p.Flow.Tasks {
				if t.Pred == nil {
					continue
				}
				need := map[int]bool{} // providers the predicate (transitively) waits for
				var walk func(fn int)
				byID := map[int]*Task{}
				for i := range p.Flow.Tasks {
					byID[p.Flow.Tasks[i].Fn.ID] = &p.Flow.Tasks[i]
				}
				walk = func(fn int) {
					if need[fn] {
						return
					}
					need[fn] = true
					tt := byID[fn]
					ins := append([]int{}, tt.Fn.Ins...)
					if tt.Pred != nil {
						ins = append(ins, tt.Pred.Ins...)
					}
					for _, in := range ins {
						if pr, ok := provider[in]; ok {
							walk(pr)
						}
					}
				}
				for _, in := range t.Pred.Ins {
					if pr, ok := provider[in]; ok {
						walk(pr)
					}
				}
				for _, in := range t.Fn.Ins {
					pr, ok := provider[in]
					if !ok || need[pr] {
						continue
					}
					// pr provides an input of the task, and the predicate does not depend on it
					o := s.Out[pr]
					o.Gate = true
					s.Out[pr] = o
					s.GateOnFn = t.Pred.ID
					s.WatchFns = []int{t.Pred.ID}
					s.GateOpen = "onfn"
					s.PredGate = []int{t.Fn.ID, t.Pred.ID, pr}
					if s.Conc == 1 {
						s.Conc = 2 // the held provider occupies one worker
					}
					return s
				}
			}
		}
	case "pred":
		for _, f := range fns {
			if f.Role == "pred" {
				keep(f.ID, predOutcome(false))
			}
		}
	case "nest":
		// one or two functions run another directive (of another program) inside
		// their body; the nested directive succeeds, fails or panics on its own
		var cand []*Fn
		for _, f := range fns {
			if f.Role == "task" || f.Role == "ptask" || f.Role == "pred" {
				cand = append(cand, f)
			}
		}
		for n := 1 + r.Intn(2); n > 0 && len(cand) > 0; n-- {
			f := cand[r.Intn(len(cand))]
			o := s.Out[f.ID]
			o.Nest = true
			s.Out[f.ID] = o
		}
	case "failprompt":
		// Two functions that depend on nothing but the directive's arguments: one
		// is held until the directive has returned, the other one fails (error or
		// panic) meanwhile. A fail-fast directive reports the first failure
		// without waiting for functions that are still running.
		var roots []*Fn
		if p.Flow != nil {
			isParam := map[int]bool{}
			for _, t := range p.Flow.Params {
				isParam[t] = true
			}
			for i := range p.Flow.Tasks {
				t := &p.Flow.Tasks[i]
				ok := t.Pred == nil && !t.Fallback
				for _, in := range t.Fn.Ins {
					if !isParam[in] {
						ok = false
					}
				}
				if ok {
					roots = append(roots, &t.Fn)
				}
			}
		} else {
			for i := range p.Par.Items {
				if it := &p.Par.Items[i]; it.Coll == nil {
					for k := range it.Fns {
						roots = append(roots, &it.Fns[k])
					}
				}
			}
		}
		if len(roots) < 2 || p.ConstCOE == 1 || (p.ConstConc > 0 && p.ConstConc < 2) {
			break // (an ordinary run)
		}
		h := roots[k%len(roots)]
		f := roots[(k+1+(k/len(roots))%(len(roots)-1))%len(roots)]
		if f == h {
			f = roots[(k+1)%len(roots)]
		}
		o := s.Out[h.ID]
		o.Gate = true
		s.Out[h.ID] = o
		if f.Err && k%2 == 0 {
			keep(f.ID, Outcome{Kind: OErr, ErrKind: k % 8})
		} else {
			keep(f.ID, Outcome{Kind: OPanic, PanicKind: k % NumPanicKinds})
		}
		s.COE = false
		if s.Conc == 1 {
			s.Conc = 2
		}
		s.GateOpen = "failreturn"
		s.WatchFns = []int{h.ID}
	case "goexit":
		// one to three functions kill their goroutine with runtime.Goexit
		var cand []*Fn
		for _, f := range fns {
			if f.Role != "pred" || r.Chance(1, 3) {
				cand = append(cand, f)
			}
		}
		for n := 1 + r.Intn(3); n > 0 && len(cand) > 0; n-- {
			f := cand[r.Intn(len(cand))]
			if f.Role == "slice" || f.Role == "map" {
				c := p.collOf(f.ID)
				toks := s.Colls[c.Slot]
				if len(toks) == 0 {
					continue
				}
				if s.ElemOut[f.ID] == nil {
					s.ElemOut[f.ID] = map[uint64]Outcome{}
				}
				s.ElemOut[f.ID][ElemKey(c, toks, r.Intn(len(toks)))] = Outcome{Kind: OGoexit}
				continue
			}
			keep(f.ID, Outcome{Kind: OGoexit})
		}
	case "widegx":
		// wide programs: a third of the functions kill their goroutine at once,
		// the others are held until as many are in flight as the limit allows -
		// the capacity must survive the dead workers
		i := 0
		for _, f := range fns {
			if f.Role != "task" && f.Role != "ptask" {
				continue
			}
			o := s.Out[f.ID]
			if i%3 == k%3 {
				o = Outcome{Kind: OGoexit}
			} else {
				o.Gate = true
			}
			s.Out[f.ID] = o
			i++
		}
		s.GateOpen = "hwm"
	case "bigend":
		// A collection with an End hook gets more elements than a 16-bit counter
		// holds, and every element call is held until the scheduler has accepted
		// the End hook's job (or the directive has returned).
		if p.Par != nil {
			for _, it := range p.Par.Items {
				c := it.Coll
				if c == nil || c.End == nil {
					continue
				}
				n := 65537 + r.Intn(2000)
				toks := make([]uint64, n)
				for i := range toks {
					toks[i] = ElemTok(exec, c.Slot, i)
				}
				s.Colls[c.Slot] = toks
				o := s.Out[c.Fn.ID]
				o.Gate, o.Delay, o.DelayArg = true, 0, 0
				s.Out[c.Fn.ID] = o
				s.GateOpen = "bigenq"
				break
			}
		}
	case "wide":
		// Every function is held until as many are in flight as the limit
		// allows (and a little longer, so that any excess shows).
		for _, f := range fns {
			if f.Role == "task" || f.Role == "ptask" {
				o := s.Out[f.ID]
				o.Gate = true
				s.Out[f.ID] = o
			}
		}
		s.GateOpen = "hwm"
		if k%2 == 1 && p.ConstConc == 0 {
			s.Conc = 0 // cff.Concurrency(0), where the option is present: the default limit
		}
	case "state":
		// One function is held until the first scheduler state report arrives
		// (the default flush interval is 100 ms); the report releases it.
		for _, f := range fns {
			if f.Role == "task" || f.Role == "ptask" {
				o := s.Out[f.ID]
				o.Gate = true
				s.Out[f.ID] = o
				s.GateOpen = "report"
				break
			}
		}
	case "slowstate":
		// A state emitter that is slower than the flush interval: one function
		// runs for 330 ms and every report lingers 150 ms in EmitScheduler.
		// Reports come from the scheduler's loop, one at a time: two deliveries
		// never overlap (a goroutine per report would grow with the emitter's
		// latency instead of with the limit). Once per program.
		if k > 0 || (p.Flow != nil && len(p.Flow.Emitters) == 0) || (p.Par != nil && len(p.Par.Emitters) == 0) {
			break
		}
		for _, f := range fns {
			if f.Role == "task" || f.Role == "ptask" {
				o := s.Out[f.ID]
				o.Delay, o.DelayArg = 2, 330000
				s.Out[f.ID] = o
				s.SlowEmit = true
				// (with reports delivered on the loop goroutine a slow emitter
				// slows the whole directive down: keep it small)
				for ci := range s.Colls {
					if len(s.Colls[ci]) > 2 {
						s.Colls[ci] = s.Colls[ci][:2]
					}
				}
				break
			}
		}
	case "emitgx":
		// The scheduler state emitter kills the goroutine it is called on
		// (runtime.Goexit, what t.FailNow does in a test double) at its first
		// report. One function runs for 130 ms; the context is cancelled once it
		// has started, so the caller gets out whatever becomes of the scheduler. Only termination, containment and
		// leaks are judged.
		for _, f := range fns {
			if f.Role == "task" || f.Role == "ptask" {
				o := s.Out[f.ID]
				o.Delay, o.DelayArg = 2, 130000 // runs past the first report (100 ms)
				s.Out[f.ID] = o
				s.CancelOnFn = f.ID
				s.WatchFns = []int{f.ID}
				s.EmitGoexit = true
				break
			}
		}
	case "one":
		var cand []*Fn
		for _, f := range fns {
			if f.Role != "pred" {
				cand = append(cand, f)
			}
		}
		if len(cand) == 0 {
			break
		}
		f := cand[k%len(cand)]
		round := k / len(cand)
		o := Outcome{Kind: OPanic, PanicKind: k % NumPanicKinds}
		if f.Err && round%2 == 0 {
			o = Outcome{Kind: OErr, ErrKind: (k / 2) % 8}
		}
		if f.Role == "slice" || f.Role == "map" {
			c := p.collOf(f.ID)
			toks := s.Colls[c.Slot]
			if len(toks) == 0 {
				toks = []uint64{ElemTok(exec, c.Slot, 0), ElemTok(exec, c.Slot, 1), ElemTok(exec, c.Slot, 2)}
				s.Colls[c.Slot] = toks
			}
			i := []int{0, len(toks) - 1, len(toks) / 2}[(round/2)%3]
			s.ElemOut[f.ID] = map[uint64]Outcome{ElemKey(c, toks, i): o}
			break
		}
		keep(f.ID, o)
	case "fault", "panic":
		for _, f := range fns {
			if f.Role == "pred" {
				keep(f.ID, predOutcome(true))
			}
		}
		var cand []*Fn
		for _, f := range fns {
			if f.Role != "pred" {
				cand = append(cand, f)
			}
		}
		k := 1 + r.Intn(3)
		if r.Chance(1, 5) {
			k = 1 + r.Intn(len(cand))
		}
		for ; k > 0 && len(cand) > 0; k-- {
			f := cand[r.Intn(len(cand))]
			o := failOutcome(f, tagName == "panic")
			if f.Role == "slice" || f.Role == "map" {
				c := p.collOf(f.ID)
				toks := s.Colls[c.Slot]
				if len(toks) == 0 {
					continue
				}
				if s.ElemOut[f.ID] == nil {
					s.ElemOut[f.ID] = map[uint64]Outcome{}
				}
				ne := 1
				if r.Chance(1, 3) {
					ne = 1 + r.Intn(len(toks))
				}
				for ; ne > 0; ne-- {
					i := r.PickInt(0, len(toks)-1, r.Intn(len(toks)))
					s.ElemOut[f.ID][ElemKey(c, toks, i)] = o
				}
				continue
			}
			keep(f.ID, o)
		}
	}
	return s
}

func (p *Program) collOf(fnID int) *Coll {
	if p.Par == nil {
		return nil
	}
	for _, it := range p.Par.Items {
		if it.Coll != nil && (it.Coll.Fn.ID == fnID || (it.Coll.End != nil && it.Coll.End.ID == fnID)) {
			return it.Coll
		}
	}
	return nil
}
