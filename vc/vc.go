// Package vc holds what every check shares: seeds, tiers, the evidence file,
// known findings, scratch directories, building the cff binary and harness
// binaries from /repo's working tree, and the child-process pool.
package vc

import (
	"bytes"
	"encoding/json"
	"fmt"
	"os"
	"os/exec"
	"path/filepath"
	"regexp"
	"sort"
	"strconv"
	"strings"
	"sync"
	"syscall"
	"time"
)

// RepoDir is the tree under observation, VerifDir this framework's checkout,
// OutDir where evidence/ and replay/ are written. The registered commands use
// the defaults (/repo, /verif, /verif). VERIF_REPO and VERIF_OUT exist so that
// a seeded change can be tried on a scratch worktree, or a long background run
// made, without touching /repo or the committed evidence.
var (
	RepoDir  = envOr("VERIF_REPO", "/repo")
	VerifDir = envOr("VERIF_HOME", "/verif")
	OutDir   = envOr("VERIF_OUT", VerifDir)
)

func envOr(k, def string) string {
	if v := os.Getenv(k); v != "" {
		return v
	}
	return def
}

// ModFlags returns the extra go flags a build inside VerifDir needs so that
// go.uber.org/cff resolves to RepoDir: nothing for the default /repo (go.mod's
// replace directive says so), otherwise a -modfile copy with the replace
// directives rewritten.
func ModFlags(work string) []string {
	if RepoDir == "/repo" && VerifDir == "/verif" {
		return nil
	}
	mf := filepath.Join(work, "verif.alt.mod")
	if _, err := os.Stat(mf); err != nil {
		b, err := os.ReadFile(filepath.Join(VerifDir, "go.mod"))
		if err != nil {
			Fatalf("%v", err)
		}
		t := strings.ReplaceAll(string(b), "=> /repo", "=> "+RepoDir)
		t = strings.ReplaceAll(t, "=> ./g", "=> "+filepath.Join(VerifDir, "g"))
		os.WriteFile(mf, []byte(t), 0o644)
		sum, _ := os.ReadFile(filepath.Join(VerifDir, "go.sum"))
		os.WriteFile(filepath.Join(work, "verif.alt.sum"), sum, 0o644)
	}
	return []string{"-modfile=" + mf}
}

// Env is the offline Go environment every go invocation needs here.
func Env(extra ...string) []string {
	env := os.Environ()
	env = append(env,
		"GOFLAGS=-mod=mod", "GOPROXY=off", "GOSUMDB=off", "GOTOOLCHAIN=local",
		"CGO_ENABLED=1",
	)
	return append(env, extra...)
}

// Seed returns VERIF_SEED (default 1).
func Seed() uint64 {
	if s := os.Getenv("VERIF_SEED"); s != "" {
		if v, err := strconv.ParseUint(s, 10, 64); err == nil {
			return v
		}
		if v, err := strconv.ParseInt(s, 10, 64); err == nil {
			return uint64(v)
		}
	}
	return 1
}

// ---------------------------------------------------------------------------
// PRNG: splitmix64, value-determined streams.

type Rand struct{ s uint64 }

func NewRand(seed uint64, stream ...uint64) *Rand {
	r := &Rand{s: seed*0x9E3779B97F4A7C15 + 0x1234567}
	for _, x := range stream {
		r.s ^= Mix(x + 0x9E3779B97F4A7C15)
		r.Uint64()
	}
	return r
}

func Mix(z uint64) uint64 {
	z += 0x9E3779B97F4A7C15
	z = (z ^ (z >> 30)) * 0xBF58476D1CE4E5B9
	z = (z ^ (z >> 27)) * 0x94D049BB133111EB
	return z ^ (z >> 31)
}

func (r *Rand) Uint64() uint64 {
	r.s += 0x9E3779B97F4A7C15
	z := r.s
	z = (z ^ (z >> 30)) * 0xBF58476D1CE4E5B9
	z = (z ^ (z >> 27)) * 0x94D049BB133111EB
	return z ^ (z >> 31)
}

// Intn returns a value in [0,n).
func (r *Rand) Intn(n int) int {
	if n <= 0 {
		return 0
	}
	return int(r.Uint64() % uint64(n))
}

// Chance is true with probability num/den.
func (r *Rand) Chance(num, den int) bool { return r.Intn(den) < num }

// Pick returns one of xs.
func Pick[T any](r *Rand, xs ...T) T { return xs[r.Intn(len(xs))] }

// Perm returns a permutation of 0..n-1.
func (r *Rand) Perm(n int) []int {
	p := make([]int, n)
	for i := range p {
		p[i] = i
	}
	for i := n - 1; i > 0; i-- {
		j := r.Intn(i + 1)
		p[i], p[j] = p[j], p[i]
	}
	return p
}

// ---------------------------------------------------------------------------
// Evidence.

type Evidence struct {
	PropertyID  string                 `json:"property_id"`
	Tier        string                 `json:"tier"`
	Seed        int64                  `json:"seed"`
	Level       string                 `json:"level"`
	Coverage    map[string]interface{} `json:"coverage"`
	Assumptions []string               `json:"assumptions,omitempty"`
	WallS       float64                `json:"wall_s"`
	Violations  int                    `json:"violations"`
}

func (e *Evidence) Write() error {
	if err := os.MkdirAll(filepath.Join(OutDir, "evidence"), 0o755); err != nil {
		return err
	}
	b, err := json.MarshalIndent(e, "", " ")
	if err != nil {
		return err
	}
	return os.WriteFile(filepath.Join(OutDir, "evidence", e.PropertyID+".json"), append(b, '\n'), 0o644)
}

// ---------------------------------------------------------------------------
// Known findings.

type Finding struct {
	Property string            `json:"property"`
	Status   string            `json:"status"` // "known" | "fixed"
	ID       string            `json:"id"`
	Key      map[string]string `json:"key"` // every entry must match (values ending in _re are regexps)
	What     string            `json:"what"`
	Commit   string            `json:"commit,omitempty"`
}

func LoadFindings() ([]Finding, error) {
	b, err := os.ReadFile(filepath.Join(VerifDir, "known_findings.jsonl"))
	if err != nil {
		if os.IsNotExist(err) {
			return nil, nil
		}
		return nil, err
	}
	var out []Finding
	for i, line := range strings.Split(string(b), "\n") {
		line = strings.TrimSpace(line)
		if line == "" || strings.HasPrefix(line, "#") {
			continue
		}
		var f Finding
		if err := json.Unmarshal([]byte(line), &f); err != nil {
			return nil, fmt.Errorf("known_findings.jsonl:%d: %v", i+1, err)
		}
		out = append(out, f)
	}
	return out, nil
}

// MatchFinding returns the known (not fixed) finding whose key is satisfied by
// the observation obs (a flat description of one violation), or nil. Key
// entries whose name ends in "_re" are regular expressions matched against the
// observation entry with the suffix stripped.
func MatchFinding(fs []Finding, prop string, obs map[string]string) *Finding {
	for i := range fs {
		f := &fs[i]
		if f.Property != prop || f.Status != "known" {
			continue
		}
		ok := len(f.Key) > 0
		for k, v := range f.Key {
			if strings.HasSuffix(k, "_re") {
				re, err := regexp.Compile(v)
				if err != nil || !re.MatchString(obs[strings.TrimSuffix(k, "_re")]) {
					ok = false
					break
				}
			} else if obs[k] != v {
				ok = false
				break
			}
		}
		if ok {
			return f
		}
	}
	return nil
}

// ---------------------------------------------------------------------------
// Violations and the report a check prints.

type Violation struct {
	Property string            `json:"property"`
	Case     string            `json:"case"`
	Why      string            `json:"why"`
	Obs      map[string]string `json:"obs,omitempty"` // for known-finding matching
	Witness  interface{}       `json:"witness,omitempty"`
}

type Report struct {
	Prop      string
	Tier      string
	Start     time.Time
	mu        sync.Mutex
	viol      []Violation
	known     map[string]int
	knownWhat map[string]string
	Incon     []string
	findings  []Finding
}

func NewReport(prop, tier string) *Report {
	fs, err := LoadFindings()
	if err != nil {
		fmt.Fprintln(os.Stderr, "warning:", err)
	}
	return &Report{Prop: prop, Tier: tier, Start: time.Now(), findings: fs, known: map[string]int{}, knownWhat: map[string]string{}}
}

// Add records a violation of this report's property (violations of other
// properties observed by a shared engine are ignored here by the callers).
func (r *Report) Add(v Violation) {
	r.mu.Lock()
	defer r.mu.Unlock()
	if v.Obs != nil {
		if f := MatchFinding(r.findings, r.Prop, v.Obs); f != nil {
			r.known[f.ID]++
			r.knownWhat[f.ID] = f.What
			return
		}
	}
	r.viol = append(r.viol, v)
}

func (r *Report) Inconclusive(s string) {
	r.mu.Lock()
	r.Incon = append(r.Incon, s)
	r.mu.Unlock()
}

// KeepOnlyCase drops every violation whose case differs (replays judge one
// case) and returns how many remain.
func (r *Report) KeepOnlyCase(cs string) int {
	r.mu.Lock()
	defer r.mu.Unlock()
	var keep []Violation
	for _, v := range r.viol {
		if v.Case == cs {
			keep = append(keep, v)
		}
	}
	r.viol = keep
	return len(keep)
}

func (r *Report) NumViolations() int { r.mu.Lock(); defer r.mu.Unlock(); return len(r.viol) }

func (r *Report) KnownHits() map[string]int {
	r.mu.Lock()
	defer r.mu.Unlock()
	m := map[string]int{}
	for k, v := range r.known {
		m[k] = v
	}
	return m
}

// Finish writes witnesses, prints the verdict lines and returns the exit code.
func (r *Report) Finish() int {
	r.mu.Lock()
	defer r.mu.Unlock()
	ids := make([]string, 0, len(r.known))
	for id := range r.known {
		ids = append(ids, id)
	}
	sort.Strings(ids)
	for _, id := range ids {
		fmt.Printf("KNOWN-FINDING: property=%s %s [%s, seen %d times]\n", r.Prop, r.knownWhat[id], id, r.known[id])
	}
	for _, s := range r.Incon {
		fmt.Printf("INCONCLUSIVE property=%s %s\n", r.Prop, s)
	}
	if len(r.viol) == 0 {
		fmt.Printf("OK property=%s tier=%s wall=%.1fs\n", r.Prop, r.Tier, time.Since(r.Start).Seconds())
		return 0
	}
	dir := filepath.Join(OutDir, "replay", r.Prop)
	os.MkdirAll(dir, 0o755)
	max := len(r.viol)
	if max > 20 && os.Getenv("VERIF_ALLVIOL") == "" {
		max = 20
	}
	for i := 0; i < max; i++ {
		v := r.viol[i]
		p := filepath.Join(dir, fmt.Sprintf("%s-%d.json", time.Now().Format("20060102T150405"), i))
		b, _ := json.MarshalIndent(v, "", " ")
		os.WriteFile(p, b, 0o644)
		why := v.Why
		if len(why) > 300 {
			why = why[:300] + "..."
		}
		fmt.Printf("VIOLATION property=%s replay=%s case=%s why=%s\n", r.Prop, p, v.Case, strings.ReplaceAll(why, "\n", " | "))
	}
	if len(r.viol) > max {
		fmt.Printf("(%d further violations not written)\n", len(r.viol)-max)
	}
	return 1
}

// ---------------------------------------------------------------------------
// Scratch directories and builds.

var (
	workMu   sync.Mutex
	workDirs []string
)

// WorkDir creates a scratch directory outside /repo and /verif; Cleanup removes
// all of them.
func WorkDir(tag string) string {
	base := os.Getenv("VERIF_SCRATCH")
	if base == "" {
		base = os.TempDir()
	}
	d, err := os.MkdirTemp(base, "verif-"+tag+"-")
	if err != nil {
		Fatalf("mktemp: %v", err)
	}
	workMu.Lock()
	workDirs = append(workDirs, d)
	workMu.Unlock()
	return d
}

func Cleanup() {
	workMu.Lock()
	defer workMu.Unlock()
	if os.Getenv("VERIF_KEEP") != "" {
		for _, d := range workDirs {
			fmt.Fprintln(os.Stderr, "kept:", d)
		}
		return
	}
	for _, d := range workDirs {
		os.RemoveAll(d)
	}
	workDirs = nil
}

func Fatalf(format string, a ...interface{}) {
	fmt.Fprintf(os.Stderr, "vcheck: "+format+"\n", a...)
	Cleanup()
	os.Exit(3)
}

// Run runs a command and returns combined output.
func Run(dir string, env []string, name string, args ...string) (string, error) {
	cmd := exec.Command(name, args...)
	cmd.Dir = dir
	cmd.Env = env
	var buf bytes.Buffer
	cmd.Stdout = &buf
	cmd.Stderr = &buf
	err := cmd.Run()
	return buf.String(), err
}

// BuildCff builds the cff binary from /repo's working tree.
func BuildCff(work string) string {
	out := filepath.Join(work, "cff")
	if o, err := Run(RepoDir, Env(), "go", "build", "-o", out, "./cmd/cff"); err != nil {
		Fatalf("building cff from %s failed: %v\n%s", RepoDir, err, o)
	}
	return out
}

// BuildHarness builds a main package of the verif module (which depends on
// /repo through a replace directive, so it is rebuilt from the working tree).
func BuildHarness(work, pkg, outName string, race bool, tags string) string {
	out := filepath.Join(work, outName)
	args := []string{"build", "-o", out}
	args = append(args, ModFlags(work)...)
	if tags != "" {
		args = append(args, "-tags", tags)
	}
	if race {
		args = append(args, "-race")
	}
	args = append(args, pkg)
	if o, err := Run(VerifDir, Env(), "go", args...); err != nil {
		Fatalf("building %s failed: %v\n%s", pkg, err, o)
	}
	return out
}

// ---------------------------------------------------------------------------
// Child processes.

type ChildResult struct {
	Index    int
	Args     []string
	ExitCode int
	TimedOut bool
	Skipped  bool
	Output   string // combined stdout+stderr (file-backed)
	OutFile  string
	Wall     time.Duration
}

// RunChildren runs jobs (argument lists for bin) on up to par processes. Each
// child's output goes to a file under work; a child exceeding timeout gets
// SIGQUIT (so the goroutine dump lands in the file), then SIGKILL. onDone, if
// non-nil, is called (serialised) as each child finishes; when stop returns
// true no further children are started (their results have ExitCode -2).
func RunChildren(bin string, work string, jobs [][]string, env []string, par int, timeout time.Duration, stop func() bool, onDone func(i int, r ChildResult)) []ChildResult {
	res := make([]ChildResult, len(jobs))
	sem := make(chan struct{}, par)
	var wg sync.WaitGroup
	var mu sync.Mutex
	for i := range jobs {
		sem <- struct{}{}
		if stop != nil && stop() {
			<-sem
			res[i] = ChildResult{Index: i, Args: jobs[i], ExitCode: -2, Skipped: true}
			continue
		}
		wg.Add(1)
		go func(i int) {
			defer wg.Done()
			defer func() { <-sem }()
			res[i] = runChild(bin, work, i, jobs[i], env, timeout)
			if onDone != nil {
				mu.Lock()
				onDone(i, res[i])
				mu.Unlock()
			}
		}(i)
	}
	wg.Wait()
	return res
}

func runChild(bin, work string, i int, args []string, env []string, timeout time.Duration) ChildResult {
	of := filepath.Join(work, fmt.Sprintf("child-%d-%d.out", i, time.Now().UnixNano()))
	f, err := os.Create(of)
	if err != nil {
		return ChildResult{Index: i, Args: args, ExitCode: -1, Output: err.Error()}
	}
	defer f.Close()
	cmd := exec.Command(bin, args...)
	cmd.Env = env
	cmd.Stdout = f
	cmd.Stderr = f
	cmd.Dir = work
	t0 := time.Now()
	r := ChildResult{Index: i, Args: args, OutFile: of}
	if err := cmd.Start(); err != nil {
		r.ExitCode = -1
		r.Output = err.Error()
		return r
	}
	done := make(chan error, 1)
	go func() { done <- cmd.Wait() }()
	select {
	case err = <-done:
	case <-time.After(timeout):
		r.TimedOut = true
		cmd.Process.Signal(syscall.SIGQUIT)
		select {
		case err = <-done:
		case <-time.After(10 * time.Second):
			cmd.Process.Kill()
			err = <-done
		}
	}
	r.Wall = time.Since(t0)
	if err != nil {
		if ee, ok := err.(*exec.ExitError); ok {
			r.ExitCode = ee.ExitCode()
		} else {
			r.ExitCode = -1
		}
	}
	b, _ := os.ReadFile(of)
	r.Output = string(b)
	return r
}

// Tail returns the last n bytes of s.
func Tail(s string, n int) string {
	if len(s) <= n {
		return s
	}
	return "..." + s[len(s)-n:]
}
