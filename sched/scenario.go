//go:build verif

// Package sched is Engine S: the real scheduler package (built from /repo's
// working tree with the verif hooks on) driven through generated scenarios
// while boundary monitors record what job bodies, Enqueue, Wait and the state
// emitter observe.
package sched

import (
	"fmt"

	"verif/vc"
)

type Beh int

const (
	BehOK Beh = iota
	BehErr
	BehGoexit
	BehCancelOK     // body calls cancel() and returns nil
	BehCancelErr    // body calls cancel() and returns its error
	BehCancelGoexit // body calls cancel() and then kills its goroutine
	BehWaitDeadline // body blocks until the (deadline) context is done, then returns nil
)

func (b Beh) String() string {
	return [...]string{"ok", "err", "goexit", "cancel-ok", "cancel-err", "cancel-goexit", "wait-deadline"}[b]
}

const (
	PaceNow = iota
	PaceYields
	PaceAfterDepEnded // wait (bounded) until job PaceArg's body has ended
	PaceAfterFailure  // wait (bounded) until some job has failed
)

type JobSpec struct {
	Deps     []int `json:"deps,omitempty"` // earlier jobs; duplicates allowed
	Beh      Beh   `json:"beh"`
	Delay    int   `json:"delay,omitempty"` // 0 none, 1 Gosched x arg, 2 sleep arg microseconds
	DelayArg int   `json:"delay_arg,omitempty"`
	Pace     int   `json:"pace,omitempty"`
	PaceArg  int   `json:"pace_arg,omitempty"`
	OtherCtx bool  `json:"other_ctx,omitempty"` // enqueued with a context that is never cancelled
	Side     int   `json:"side,omitempty"`      // 0: enqueued by the caller; k>0: by side goroutine k
	Gate     bool  `json:"gate,omitempty"`      // body blocks until the scenario's gate opens
	Bar      bool  `json:"bar,omitempty"`       // body joins the scenario's barrier (all Bar jobs must run at once)
	// ErrKind (jobs that return an error): 0 the job's own error value;
	// 1 the error another scheduler's Wait returned to the body, unchanged,
	// after a job of that inner scheduler killed its goroutine (a task that runs
	// a nested directive and hands its error on); 3 / 4 the bare sentinels
	// context.Canceled / context.DeadlineExceeded (a task that bounds its own
	// work with a context of its own) although the scenario's context is live.
	ErrKind int `json:"err_kind,omitempty"`
	// ShareDeps: the Dependencies slice handed to Enqueue is a window
	// (deps[1:]) of the very slice the previous job of the same enqueuer was
	// submitted with - callers build such lists from one backing array. The
	// scheduler must treat its argument as read-only.
	ShareDeps bool `json:"share_deps,omitempty"`
	// DeadCtx: the job is submitted with a context of its own that is already
	// done (1: cancelled, 2: its deadline has passed) while the other jobs'
	// context is live. It must not be started; its failure is that context's error.
	DeadCtx int `json:"dead_ctx,omitempty"`
}

const (
	CancelNever         = iota
	CancelBeforeFirst   // cancel() before the first Enqueue
	CancelHelperOnStart // a helper goroutine cancels once job CancelArg has started
	CancelAfterWait     // a helper goroutine cancels once Wait has been called
	CancelCallerAfter   // the caller cancels after enqueuing job CancelArg
	CancelDeadlinePast  // the context carries a deadline that has already passed
)

type Scenario struct {
	Family       string    `json:"family"`
	Index        int       `json:"index"`
	N            int       `json:"n"` // 0 = default
	COE          bool      `json:"coe"`
	Emitter      bool      `json:"emitter"`
	Jobs         []JobSpec `json:"jobs"`
	CancelKind   int       `json:"cancel_kind,omitempty"`
	CancelArg    int       `json:"cancel_arg,omitempty"`
	WaitOtherCtx bool      `json:"wait_other_ctx,omitempty"`
	PerturbSeed  uint64    `json:"perturb_seed"`
	Profile      int       `json:"profile"`
	// Gate scenarios: the gate opens when this many bodies are in flight and
	// the census has been taken (GateOpen = "census"), or when Wait has
	// returned (GateOpen = "return").
	GateOpen string `json:"gate_open,omitempty"`
	// DeadlineUS > 0: the jobs' context expires this many microseconds after the
	// scenario starts (context.WithTimeout), instead of being cancelled by hand.
	DeadlineUS int `json:"deadline_us,omitempty"`
	// Variant of the barrier family (how workers were stressed before the barrier).
	Variant int `json:"variant,omitempty"`
	// LooseErrs: every third job's error has an Is method that matches any
	// foreign error (hence also any sentinel the scheduler may use internally).
	LooseErrs bool `json:"loose_errs,omitempty"`
	// CtxLikeErrs: every fourth job's error unwraps to context.DeadlineExceeded
	// (a task that bounds its own work with a timeout returns such errors)
	// although the scenario's context is untouched by it.
	CtxLikeErrs bool `json:"ctx_like_errs,omitempty"`
	// HoldAtGot: workers that have received a job (other than the cancelling
	// one) are held at the hook point before they look at the job's context,
	// until cancel() has returned (bounded). Such a job must not start.
	HoldAtGot bool `json:"hold_at_got,omitempty"`
	// CauseCtx: the scenario's contexts carry cancellation causes.
	CauseCtx bool `json:"cause_ctx,omitempty"`
	// EmitGoexitAt > 0: the state emitter kills the goroutine it is called on
	// (runtime.Goexit) at its k-th report. Only termination and leaks are judged.
	EmitGoexitAt int `json:"emit_goexit_at,omitempty"`
}

func (s *Scenario) hasGoexit() bool {
	for _, j := range s.Jobs {
		if j.Beh == BehGoexit || j.Beh == BehCancelGoexit {
			return true
		}
	}
	return false
}

func (s *Scenario) hasCancel() bool {
	if s.CancelKind != CancelNever || s.DeadlineUS > 0 {
		return true
	}
	for _, j := range s.Jobs {
		if j.Beh == BehCancelOK || j.Beh == BehCancelErr || j.Beh == BehCancelGoexit || j.Beh == BehWaitDeadline {
			return true
		}
	}
	return false
}

// ---------------------------------------------------------------------------
// Generators. Every scenario is a pure function of (seed, family, index).

var nChoices = []int{1, 1, 2, 2, 3, 4, 4, 5, 8, 16, 64, 0}

func Generate(seed uint64, family string, index int) *Scenario {
	sc := generate(seed, family, index)
	// a third of all scenarios: every context carries a cancellation cause
	// (context.WithCancelCause / WithTimeoutCause / WithDeadlineCause); what the
	// scheduler reports must still be the context's error (ctx.Err()), never the
	// cause.
	sc.CauseCtx = mix64(seed^hashStr(family)^uint64(index)*0x9E3779B97F4A7C15)%3 == 0
	return sc
}

func mix64(z uint64) uint64 {
	z = (z ^ (z >> 30)) * 0xBF58476D1CE4E5B9
	z = (z ^ (z >> 27)) * 0x94D049BB133111EB
	return z ^ (z >> 31)
}

func generate(seed uint64, family string, index int) *Scenario {
	r := vc.NewRand(seed, hashStr(family), uint64(index))
	switch family {
	case "mix":
		return genMix(r, index)
	case "failfast":
		sc := genMix(r, index)
		sc.Family = family
		sc.COE = false
		stripGoexit(sc, r)
		ensureFailure(sc, r)
		return sc
	case "coe":
		sc := genMix(r, index)
		sc.Family = family
		sc.COE = true
		stripGoexit(sc, r)
		ensureFailure(sc, r)
		return sc
	case "cancel":
		sc := genMix(r, index)
		sc.Family = family
		stripGoexit(sc, r)
		ensureCancel(sc, r)
		return sc
	case "state":
		sc := genMix(r, index)
		sc.Family = family
		sc.Emitter = true
		return sc
	case "drain":
		return genDrain(r, index)
	case "wide":
		return genWide(r, index)
	case "barrier":
		return genBarrier(r, index)
	case "prompt":
		return genPrompt(r, index)
	case "saturate":
		return genSaturate(r, index)
	case "cancelgot":
		return genCancelGot(r, index)
	case "fanin":
		return genFanIn(r, index)
	case "emitgx":
		sc := genMix(r, index)
		sc.Family = family
		sc.Emitter = true
		sc.EmitGoexitAt = 1 + r.Intn(6)
		if index%2 == 0 {
			// the caller gets out of Wait through its context, whatever became of
			// the loop: what is left behind then shows as a leak
			sc.CancelKind = CancelAfterWait
		}
		return sc
	}
	panic("unknown family " + family)
}

func hashStr(s string) uint64 {
	h := uint64(1469598103934665603)
	for i := 0; i < len(s); i++ {
		h ^= uint64(s[i])
		h *= 1099511628211
	}
	return h
}

func genDelay(r *vc.Rand, j *JobSpec) {
	switch r.Intn(10) {
	case 0, 1, 2, 3, 4:
	case 5, 6, 7:
		j.Delay, j.DelayArg = 1, 1+r.Intn(6)
	case 8:
		j.Delay, j.DelayArg = 2, 1+r.Intn(60)
	case 9:
		j.Delay, j.DelayArg = 2, 50+r.Intn(400)
	}
}

func genMix(r *vc.Rand, index int) *Scenario {
	sc := &Scenario{Family: "mix", Index: index}
	sc.N = vc.Pick(r, nChoices...)
	sc.COE = r.Chance(1, 2)
	sc.Emitter = r.Chance(3, 10)
	sc.PerturbSeed = r.Uint64()
	sc.Profile = r.Intn(numProfiles)
	n := 1 + r.Intn(24)
	if r.Chance(1, 8) {
		n = 20 + r.Intn(50)
	}
	shape := r.Intn(6) // 0 random, 1 chain-heavy, 2 diamonds/fan-in, 3 independent, 4 random sparse, 5 layered
	sides := 0
	if r.Chance(1, 5) {
		sides = 1 + r.Intn(4)
	}
	failRate := vc.Pick(r, 0, 0, 5, 10, 25, 50)
	goexitRate := vc.Pick(r, 0, 0, 0, 5, 15)
	cancelJobRate := vc.Pick(r, 0, 0, 0, 0, 5, 10)
	lateRate := vc.Pick(r, 0, 10, 30, 60)
	for i := 0; i < n; i++ {
		var j JobSpec
		if sides > 0 && r.Chance(1, 3) {
			j.Side = 1 + r.Intn(sides)
		}
		// candidates: earlier jobs on the same side
		var cand []int
		for k := 0; k < i; k++ {
			if sc.Jobs[k].Side == j.Side {
				cand = append(cand, k)
			}
		}
		if len(cand) > 0 {
			nd := 0
			switch shape {
			case 0:
				nd = r.Intn(4)
			case 1:
				nd = 1
			case 2:
				nd = r.Intn(9)
			case 3:
				nd = 0
			case 4:
				if r.Chance(1, 3) {
					nd = 1 + r.Intn(2)
				}
			case 5:
				nd = 1 + r.Intn(3)
			}
			for d := 0; d < nd; d++ {
				var dep int
				if shape == 1 && r.Chance(4, 5) {
					dep = cand[len(cand)-1]
				} else {
					dep = cand[r.Intn(len(cand))]
				}
				j.Deps = append(j.Deps, dep)
				if r.Chance(1, 6) { // duplicate dependency
					j.Deps = append(j.Deps, dep)
				}
			}
		}
		x := r.Intn(100)
		switch {
		case x < failRate:
			j.Beh = BehErr
		case x < failRate+goexitRate:
			j.Beh = BehGoexit
		case x < failRate+goexitRate+cancelJobRate:
			j.Beh = vc.Pick(r, BehCancelOK, BehCancelErr)
		}
		genDelay(r, &j)
		if r.Intn(100) < lateRate && len(j.Deps) > 0 {
			j.Pace, j.PaceArg = PaceAfterDepEnded, j.Deps[r.Intn(len(j.Deps))]
		} else if r.Chance(1, 6) {
			j.Pace, j.PaceArg = PaceYields, 1+r.Intn(5)
		} else if failRate > 0 && r.Chance(1, 6) {
			j.Pace = PaceAfterFailure
		}
		if r.Chance(1, 25) {
			j.OtherCtx = true
		}
		if i > 0 && r.Chance(1, 8) {
			// a list with a repetition for the previous job ... and a window of
			// it for this one
			if pj := &sc.Jobs[i-1]; pj.Side == j.Side && len(pj.Deps) >= 1 && !pj.ShareDeps {
				pj.Deps = append([]int{pj.Deps[0]}, pj.Deps...)
				j.Deps = append([]int(nil), pj.Deps[1:]...)
				j.ShareDeps = true
				j.Pace, j.PaceArg = PaceNow, 0
			}
		}
		sc.Jobs = append(sc.Jobs, j)
	}
	switch r.Intn(12) {
	case 0:
		sc.CancelKind = CancelBeforeFirst
	case 1:
		sc.CancelKind, sc.CancelArg = CancelHelperOnStart, r.Intn(n)
	case 2:
		sc.CancelKind = CancelAfterWait
	case 3:
		sc.CancelKind, sc.CancelArg = CancelCallerAfter, r.Intn(n)
	}
	if r.Chance(1, 10) {
		sc.WaitOtherCtx = true
	}
	sc.LooseErrs = r.Chance(1, 6)
	sc.CtxLikeErrs = r.Chance(1, 6)
	if r.Chance(1, 4) {
		kinds := [][]int{{1}, {3, 4}, {1, 3, 4}}[r.Intn(3)]
		for i := range sc.Jobs {
			if b := sc.Jobs[i].Beh; (b == BehErr || b == BehCancelErr) && r.Chance(2, 3) {
				sc.Jobs[i].ErrKind = kinds[r.Intn(len(kinds))]
			}
		}
	}
	if r.Chance(1, 4) {
		rate := vc.Pick(r, 5, 15, 30)
		for i := range sc.Jobs {
			if b := sc.Jobs[i].Beh; (b == BehOK || b == BehErr) && !sc.Jobs[i].OtherCtx && r.Intn(100) < rate {
				sc.Jobs[i].DeadCtx = 1 + r.Intn(2)
			}
		}
	}
	return sc
}

func stripGoexit(sc *Scenario, r *vc.Rand) {
	for i := range sc.Jobs {
		if sc.Jobs[i].Beh == BehGoexit {
			sc.Jobs[i].Beh = BehErr
		}
	}
}

func ensureFailure(sc *Scenario, r *vc.Rand) {
	for _, j := range sc.Jobs {
		if j.Beh == BehErr || j.Beh == BehCancelErr {
			return
		}
	}
	k := 1 + r.Intn(4)
	for ; k > 0; k-- {
		sc.Jobs[r.Intn(len(sc.Jobs))].Beh = BehErr
	}
}

func ensureCancel(sc *Scenario, r *vc.Rand) {
	n := len(sc.Jobs)
	if r.Chance(1, 5) {
		// cancellation by deadline instead of cancel()
		sc.CancelKind = CancelNever
		for i := range sc.Jobs {
			if b := sc.Jobs[i].Beh; b == BehCancelOK || b == BehCancelErr {
				sc.Jobs[i].Beh = BehOK
			}
		}
		if r.Chance(1, 2) {
			sc.CancelKind = CancelDeadlinePast
		} else {
			sc.DeadlineUS = 100 + r.Intn(1500)
			k := r.Intn(n)
			if !sc.Jobs[k].OtherCtx {
				sc.Jobs[k].Beh = BehWaitDeadline
			}
		}
		return
	}
	if sc.hasCancel() {
		return
	}
	switch r.Intn(5) {
	case 0:
		sc.CancelKind = CancelBeforeFirst
	case 1:
		sc.CancelKind, sc.CancelArg = CancelHelperOnStart, r.Intn(n)
	case 2:
		sc.CancelKind, sc.CancelArg = CancelCallerAfter, r.Intn(n)
	default:
		sc.Jobs[r.Intn(n)].Beh = vc.Pick(r, BehCancelOK, BehCancelErr)
	}
}

// genDrain: an early failure followed by many more Enqueue calls (the loop has
// exited and only the drain path serves them), with results queued behind it.
func genDrain(r *vc.Rand, index int) *Scenario {
	sc := &Scenario{Family: "drain", Index: index}
	sc.N = vc.Pick(r, 1, 1, 2, 2, 3, 4, 8)
	sc.COE = false
	sc.Emitter = r.Chance(1, 4)
	sc.PerturbSeed = r.Uint64()
	sc.Profile = vc.Pick(r, 0, 1, 1, 2, 3)
	n := 10 + r.Intn(200)
	failAt := r.Intn(1 + n/4)
	for i := 0; i < n; i++ {
		var j JobSpec
		if i == failAt || r.Chance(1, 12) {
			j.Beh = BehErr
		}
		if i > 0 && r.Chance(1, 4) {
			j.Deps = []int{r.Intn(i)}
		}
		genDelay(r, &j)
		if i > failAt && r.Chance(1, 10) {
			j.Pace = PaceAfterFailure
		}
		sc.Jobs = append(sc.Jobs, j)
	}
	return sc
}

// genWide: M independent gated jobs; the census of goroutines is taken while
// exactly `limit` bodies are held on the gate.
func genWide(r *vc.Rand, index int) *Scenario {
	sc := &Scenario{Family: "wide", Index: index}
	sc.N = vc.Pick(r, 1, 2, 3, 4, 5, 8, 16, 64, 0)
	sc.COE = r.Chance(1, 2)
	sc.PerturbSeed = r.Uint64()
	sc.Profile = r.Intn(numProfiles)
	m := vc.Pick(r, 10, 100, 1000, 1000, 10000)
	if index%40 == 7 {
		m = 100000
	}
	for i := 0; i < m; i++ {
		sc.Jobs = append(sc.Jobs, JobSpec{Gate: true})
	}
	sc.GateOpen = "census"
	return sc
}

// genBarrier: after k Goexit jobs, N jobs rendezvous on an N-party barrier:
// capacity must not have been lost.
func genBarrier(r *vc.Rand, index int) *Scenario {
	sc := &Scenario{Family: "barrier", Index: index}
	sc.N = vc.Pick(r, 1, 2, 3, 4, 5, 8, 16, 0)
	sc.COE = true
	sc.PerturbSeed = r.Uint64()
	sc.Profile = r.Intn(numProfiles)
	sc.Variant = r.Intn(4)
	return sc // jobs are built at run time (N may be the default)
}

// genPrompt: one job is held on a gate that opens only after Wait has
// returned; the context is cancelled meanwhile. Wait must return.
func genPrompt(r *vc.Rand, index int) *Scenario {
	sc := &Scenario{Family: "prompt", Index: index}
	sc.N = vc.Pick(r, 2, 3, 4, 8)
	sc.COE = r.Chance(1, 2)
	sc.PerturbSeed = r.Uint64()
	sc.Profile = r.Intn(numProfiles)
	n := 1 + r.Intn(6)
	held := r.Intn(n)
	for i := 0; i < n; i++ {
		j := JobSpec{}
		if i == held {
			j.Gate = true
		} else if i > 0 && r.Chance(1, 3) {
			j.Deps = []int{r.Intn(i)}
		}
		if i != held && r.Chance(1, 4) {
			// a genuine failure, usually processed before the cancellation: the
			// call must still return at once when the context ends
			j.Beh = BehErr
		}
		sc.Jobs = append(sc.Jobs, j)
	}
	sc.GateOpen = "return"
	sc.CancelKind, sc.CancelArg = CancelHelperOnStart, held
	return sc
}

// genSaturate: all N workers are held on the gate; more jobs are ready behind
// them; the gate opens only after cancel() has returned, so none of the ready
// jobs may start.
func genSaturate(r *vc.Rand, index int) *Scenario {
	sc := &Scenario{Family: "saturate", Index: index}
	sc.N = vc.Pick(r, 1, 2, 3, 4, 8)
	sc.COE = r.Chance(1, 2)
	sc.PerturbSeed = r.Uint64()
	sc.Profile = r.Intn(numProfiles)
	for i := 0; i < sc.N; i++ {
		sc.Jobs = append(sc.Jobs, JobSpec{Gate: true})
	}
	extra := 1 + r.Intn(10)
	for i := 0; i < extra; i++ {
		j := JobSpec{}
		if r.Chance(1, 3) {
			j.Deps = []int{r.Intn(len(sc.Jobs))}
		}
		sc.Jobs = append(sc.Jobs, j)
	}
	sc.GateOpen = "cancelled"
	return sc
}

// genCancelGot: a job cancels the context as its first action while its
// siblings - all ready at the same time - have been handed to workers that are
// held before they look at the context.
func genCancelGot(r *vc.Rand, index int) *Scenario {
	sc := &Scenario{Family: "cancelgot", Index: index}
	sc.N = vc.Pick(r, 2, 3, 4, 8, 16)
	sc.COE = r.Chance(1, 2)
	sc.PerturbSeed = r.Uint64()
	sc.Profile = 4 // no random perturbation: the hold is the perturbation
	sc.HoldAtGot = true
	nroot := 0
	if r.Chance(1, 2) {
		nroot = 1 // a root the whole fan-out depends on
		sc.Jobs = append(sc.Jobs, JobSpec{})
	}
	k := 2 + r.Intn(sc.N) // canceller + siblings: at most N+1
	for i := 0; i < k; i++ {
		j := JobSpec{}
		if nroot == 1 {
			j.Deps = []int{0}
		}
		if i == 0 {
			j.Beh = vc.Pick(r, BehCancelOK, BehCancelErr)
		}
		sc.Jobs = append(sc.Jobs, j)
	}
	return sc
}

// genFanIn: one job depends on more jobs than a 16-bit counter can hold, most
// of them unfinished when it is enqueued.
func genFanIn(r *vc.Rand, index int) *Scenario {
	sc := &Scenario{Family: "fanin", Index: index}
	sc.N = vc.Pick(r, 2, 4, 8)
	sc.COE = r.Chance(1, 2)
	sc.PerturbSeed = r.Uint64()
	sc.Profile = 4
	m := 65536 + 1 + r.Intn(5000)
	for i := 0; i < m; i++ {
		sc.Jobs = append(sc.Jobs, JobSpec{Gate: true})
	}
	deps := make([]int, m)
	for i := range deps {
		deps[i] = i
	}
	if r.Chance(1, 2) {
		// one of the last dependencies fails: the dependent must not run at all
		k := m - 1 - r.Intn(100)
		sc.Jobs[k].Beh = BehErr
		// ... after a while: a dependent that is (wrongly) ready by then gets a
		// worker while this body is still running
		sc.Jobs[k].Delay, sc.Jobs[k].DelayArg = 2, 2000
	}
	sc.Jobs = append(sc.Jobs, JobSpec{Deps: deps})
	sc.GateOpen = "enqueued" // the gate opens once everything has been enqueued
	return sc
}

func (s *Scenario) String() string {
	return fmt.Sprintf("%s#%d N=%d coe=%v em=%v jobs=%d cancel=%d", s.Family, s.Index, s.N, s.COE, s.Emitter, len(s.Jobs), s.CancelKind)
}
