//go:build verif

package sched

import "vg/mon"

type G = mon.G

func dumpAll() string           { return mon.DumpAll() }
func parseDump(s string) []G    { return mon.ParseDump(s) }
func sameBlocked(a, b []G) bool { return mon.SameBlocked(a, b) }
