//go:build verif

package sched

import (
	"encoding/json"
	"fmt"
	"os"
	"strings"
	"time"
)

// CaseViol is a violation with its witness.
type CaseViol struct {
	Index    int               `json:"index"`
	Prop     string            `json:"prop"`
	Why      string            `json:"why"`
	Obs      map[string]string `json:"obs,omitempty"`
	Scenario *Scenario         `json:"scenario,omitempty"`
	Dump     string            `json:"dump,omitempty"`
}

// BatchResult is what a child process reports for a range of scenarios.
type BatchResult struct {
	Family string `json:"family"`
	From   int    `json:"from"`
	Count  int    `json:"count"`
	Ran    int    `json:"ran"`
	Quiet  bool   `json:"quiet"`

	Viols []CaseViol `json:"viols,omitempty"`
	Incon []string   `json:"incon,omitempty"`

	JobsSubmitted  int64          `json:"jobs_submitted"`
	JobsStarted    int64          `json:"jobs_started"`
	StateReports   int64          `json:"state_reports"`
	LateEnqueues   int64          `json:"late_enqueues"`
	Overcommit     int64          `json:"overcommit_scenarios"` // loop's ongoing count exceeded N at a dispatch
	PerturbHits    int64          `json:"perturb_hits"`
	MustNotStart   int64          `json:"must_not_start_jobs"`
	DeadCtxJobs    int64          `json:"dead_ctx_jobs"`
	BareCtxErrJobs int64          `json:"bare_ctx_err_jobs"`
	NestedErrJobs  int64          `json:"nested_err_jobs"`
	Failures       int64          `json:"failed_jobs"`
	Goexits        int64          `json:"goexit_jobs"`
	Blocked        int64          `json:"transitively_blocked_jobs"`
	CensusTaken    int64          `json:"censuses"`
	MaxCensusOverN int            `json:"max_census_minus_limit"`
	NilReturns     int64          `json:"nil_returns"`
	CancelSeen     int64          `json:"cancelled_runs"`
	NonTrivial     map[string]int `json:"nontrivial"` // per property, scenarios that were non-trivial for it
	HWMByLimit     map[int]int    `json:"hwm_by_limit"`
	Sigs           []uint64       `json:"sigs"`       // distinct loop-arm interleaving signatures
	AbsStates      []uint64       `json:"abs_states"` // distinct abstract loop states
	Distinct       []uint64       `json:"distinct"`   // hashes of distinct non-trivial scenarios
	Samples        []*Scenario    `json:"samples,omitempty"`
	StuckAbandoned int            `json:"stuck_abandoned"`
	ShadowEvents   int64          `json:"shadow_events"`      // loop events checked by the online reference model
	ExactStates    int64          `json:"exact_state_checks"` // State reports compared field by field with the model
}

func stuckProp(family string) string {
	switch family {
	case "wide", "barrier":
		return "C03"
	case "prompt":
		return "C09"
	}
	return "C05"
}

// RunBatch runs scenarios [from, from+count) of a family in this process.
// progressFile, if non-empty, receives "BEGIN <index>" before each scenario so
// that a crash of the process can be attributed.
func RunBatch(seed uint64, family string, from, count int, quiet bool, progressFile string) *BatchResult {
	br := &BatchResult{Family: family, From: from, Count: count, Quiet: quiet,
		NonTrivial: map[string]int{}, HWMByLimit: map[int]int{}}
	sigs := map[uint64]struct{}{}
	abs := map[uint64]struct{}{}
	distinct := map[uint64]struct{}{}
	var pf *os.File
	if progressFile != "" {
		pf, _ = os.Create(progressFile)
		defer pf.Close()
	}
	for idx := from; idx < from+count; idx++ {
		sc := Generate(seed, family, idx)
		if pf != nil {
			fmt.Fprintf(pf, "BEGIN %d\n", idx)
		}
		x := newExec(sc, quiet)
		done := make(chan struct{})
		var viols []Viol
		var st Stats
		go func() {
			defer close(done)
			x.run()
			x.settle()
			if !quiet {
				viols, st = x.judge()
			}
		}()
		verdict, dump := watch(done, x, quiet)
		br.Ran++
		switch verdict {
		case "stuck":
			br.Viols = append(br.Viols, CaseViol{Index: idx, Prop: stuckProp(family),
				Why:      "stuck: a call into the scheduler is outstanding, no harness event for 1.5 s and every goroutine is blocked in the same place in three consecutive dumps",
				Scenario: sc, Dump: dump})
			br.StuckAbandoned++
			x.openGate()
		case "spin":
			br.Viols = append(br.Viols, CaseViol{Index: idx, Prop: stuckProp(family),
				Why:      "no progress: a call into the scheduler is outstanding, no job body is running and no harness event happened for 15 s, with scheduler goroutines runnable (spinning)",
				Scenario: sc, Dump: dump})
			br.StuckAbandoned++
			x.openGate()
		case "inconclusive":
			br.Incon = append(br.Incon, fmt.Sprintf("%s#%d: watchdog expired without a decidable state", family, idx))
			br.StuckAbandoned++
			x.openGate()
		}
		if verdict != "done" {
			break // this process is polluted with abandoned goroutines; the driver goes on with other batches
		}
		if quiet {
			br.JobsSubmitted += int64(len(sc.Jobs))
			edges := 0
			for _, j := range sc.Jobs {
				edges += len(j.Deps)
			}
			if edges > 0 || len(sc.Jobs) >= 2 {
				br.NonTrivial["C12"]++
				distinct[scenarioHash(sc)] = struct{}{}
			}
			if len(br.Samples) < 2 && len(sc.Jobs) <= 12 && len(sc.Jobs) >= 3 {
				br.Samples = append(br.Samples, sc)
			}
			continue
		}
		if x.leakIncon {
			br.Incon = append(br.Incon, fmt.Sprintf("%s#%d: goroutines remained but were not stable", family, idx))
		}
		for _, v := range viols {
			if len(br.Viols) < 40 {
				br.Viols = append(br.Viols, CaseViol{Index: idx, Prop: v.Prop, Why: v.Why, Obs: v.Obs, Scenario: sc})
			}
		}
		br.JobsSubmitted += int64(st.Jobs)
		br.JobsStarted += int64(st.Started)
		br.StateReports += int64(st.States)
		br.LateEnqueues += int64(st.LateEnq)
		if st.MaxOngoing > st.Limit {
			br.Overcommit++
		}
		br.PerturbHits += int64(st.PerturbHits)
		br.ShadowEvents += int64(st.ShadowEvents)
		br.ExactStates += int64(st.ExactStates)
		br.MustNotStart += int64(st.MustNotStart)
		br.DeadCtxJobs += int64(st.DeadCtxReached)
		br.BareCtxErrJobs += int64(st.BareCtxErrJobs)
		br.NestedErrJobs += int64(st.NestedErrJobs)
		br.Failures += int64(st.Failures)
		br.Goexits += int64(st.Goexits)
		br.Blocked += int64(st.TransitiveBlocked)
		if st.CensusTaken {
			br.CensusTaken++
			if d := x.censusSched - st.Limit; d > br.MaxCensusOverN {
				br.MaxCensusOverN = d
			}
		}
		if st.WaitNil {
			br.NilReturns++
		}
		if st.CancelSeen {
			br.CancelSeen++
		}
		if st.HWM > br.HWMByLimit[st.Limit] {
			br.HWMByLimit[st.Limit] = st.HWM
		}
		sigs[st.Sig] = struct{}{}
		for _, a := range st.AbsStates {
			abs[a] = struct{}{}
		}
		nt := map[string]bool{
			"C01": st.NonTrivialC01,
			"C03": st.HWM >= 2 || st.CensusTaken,
			"C05": st.Jobs >= 2,
			"C06": st.Jobs >= 2,
			"C07": !sc.COE && st.Failures > 0,
			"C08": sc.COE && st.Failures > 0,
			"C09": st.MustNotStart > 0 || (st.CancelSeen && st.Jobs >= 2),
			"C19": st.States > 0,
		}
		any := false
		for p, b := range nt {
			if b {
				br.NonTrivial[p]++
				any = true
			}
		}
		if any {
			distinct[scenarioHash(sc)] = struct{}{}
		}
		if len(br.Samples) < 2 && len(sc.Jobs) <= 12 && len(sc.Jobs) >= 3 {
			br.Samples = append(br.Samples, sc)
		}
	}
	for s := range sigs {
		br.Sigs = append(br.Sigs, s)
	}
	for s := range abs {
		br.AbsStates = append(br.AbsStates, s)
	}
	for s := range distinct {
		br.Distinct = append(br.Distinct, s)
	}
	return br
}

func scenarioHash(sc *Scenario) uint64 {
	b, _ := json.Marshal(sc)
	h := uint64(1469598103934665603)
	for _, c := range b {
		h ^= uint64(c)
		h *= 1099511628211
	}
	return h
}

// watch waits for the scenario goroutine. It returns "done", or a verdict on
// why the scenario will not finish.
func watch(done chan struct{}, x *Exec, quiet bool) (string, string) {
	tick := time.NewTicker(100 * time.Millisecond)
	defer tick.Stop()
	last := Progress.Load()
	lastChange := time.Now()
	start := time.Now()
	for {
		select {
		case <-done:
			return "done", ""
		case <-tick.C:
		}
		if quiet {
			if time.Since(start) > 90*time.Second {
				return "inconclusive", dumpAll()
			}
			continue
		}
		if p := Progress.Load(); p != last {
			last, lastChange = p, time.Now()
			continue
		}
		static := time.Since(lastChange)
		if static < 1500*time.Millisecond {
			continue
		}
		// three dumps, 100 ms apart
		var sets [3][]G
		var text string
		allBlocked := true
		for k := 0; k < 3 && allBlocked; k++ {
			text = dumpAll()
			for _, g := range parseDump(text) {
				if g.Has("sched.watch") {
					continue // this goroutine
				}
				sets[k] = append(sets[k], g)
				if !g.Blocked() {
					allBlocked = false
				}
			}
			if k < 2 {
				time.Sleep(100 * time.Millisecond)
			}
		}
		select {
		case <-done:
			return "done", ""
		default:
		}
		if allBlocked && Progress.Load() == last && sameBlocked(sets[0], sets[1]) && sameBlocked(sets[1], sets[2]) {
			return "stuck", trimDump(text)
		}
		if static > 15*time.Second && x.inflight.Load() == 0 && Progress.Load() == last {
			spinning := false
			for _, g := range sets[0] {
				if g.InScheduler() && !g.Blocked() {
					spinning = true
				}
			}
			if spinning {
				return "spin", trimDump(text)
			}
		}
		if static > 40*time.Second {
			return "inconclusive", trimDump(text)
		}
	}
}

func trimDump(s string) string {
	// keep goroutine headers and function lines only
	var b strings.Builder
	for _, l := range strings.Split(s, "\n") {
		if strings.HasPrefix(l, "\t") {
			continue
		}
		b.WriteString(l)
		b.WriteByte('\n')
		if b.Len() > 20000 {
			break
		}
	}
	return b.String()
}
