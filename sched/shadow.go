//go:build verif

package sched

import (
	"fmt"
	"sync"

	"go.uber.org/cff/scheduler"
)

// The shadow scheduler is an online reference model of the scheduler loop. It
// is driven only by the events the loop goroutine emits at the verif hook
// points (one goroutine, hence program order) and is written from the
// *meaning* of the counters the properties talk about, not from the loop's
// code:
//
//	pending   = jobs the loop has accepted        - results the loop has taken
//	executing = jobs the loop has handed to a worker - results the loop has taken
//	waiting   = accepted, not handed out, some (distinct) dependency has no result yet
//	ready     = accepted, not handed out, every dependency has a result
//
// At every loop event it checks that the step is one the model allows (a job is
// handed to a worker only once, only after every dependency has a result, and
// never while `limit` jobs are already out; a result arrives only for a job
// that is out; the loop leaves only when nothing is pending and no Enqueue can
// follow, or - fail-fast - right after a failing result), and that the
// counters the implementation reports at the hook, and the State it emits right
// after a tick, are exactly the model's.
type mJob struct {
	id        int
	undone    int // distinct dependencies without a result
	state     int // 1 accepted, 2 handed to a worker, 3 result taken
	failed    bool
	consumers []*mJob
}

type tickSnap struct {
	pending, ready, waiting, idle, n int
}

type shadow struct {
	mu      sync.Mutex
	on      bool
	key     uintptr
	n       int
	coe     bool
	jobs    map[*scheduler.ScheduledJob]*mJob
	enq     int
	disp    int
	res     int
	waiting int
	ready   int
	closed  bool
	exited  bool
	unsound bool // the model lost track (a dependency it never saw): it stops judging
	lastBad bool // the last result taken was a failure
	tick    *tickSnap

	events     int
	exactState int
	viols      []Viol
}

func newShadow(n int, coe bool) *shadow {
	return &shadow{on: true, n: n, coe: coe, jobs: map[*scheduler.ScheduledJob]*mJob{}}
}

// bind ties the model to one scheduler (identified by its hook key).
func (m *shadow) bind(key uintptr) {
	m.mu.Lock()
	m.key = key
	m.mu.Unlock()
}

func (m *shadow) bad(prop, format string, a ...interface{}) {
	if len(m.viols) < 4 {
		m.viols = append(m.viols, Viol{Prop: prop, Why: "shadow scheduler: " + fmt.Sprintf(format, a...)})
	}
}

func (m *shadow) counters(where string, pending, ready, waiting, ongoing int) {
	// -1: not reported at this point
	if pending >= 0 && pending != m.enq-m.res {
		m.bad("C19", "%s: the loop's pending count is %d; %d jobs were accepted and %d results taken", where, pending, m.enq, m.res)
	}
	if ready >= 0 && ready != m.ready {
		m.bad("C19", "%s: the loop's ready count is %d; the model has %d jobs whose dependencies all have results and that were not handed out", where, ready, m.ready)
	}
	if waiting >= 0 && waiting != m.waiting {
		m.bad("C19", "%s: the loop's waiting count is %d; the model has %d jobs with a dependency that has no result yet", where, waiting, m.waiting)
	}
	if ongoing >= 0 && ongoing != m.disp-m.res {
		m.bad("C19", "%s: the loop's executing count is %d; %d jobs were handed out and %d results taken", where, ongoing, m.disp, m.res)
	}
}

// event is called from the hook for the loop's points only.
func (m *shadow) event(p int, key uintptr, j *scheduler.ScheduledJob, a, b, c int) {
	m.mu.Lock()
	defer m.mu.Unlock()
	if !m.on || m.unsound {
		return
	}
	if m.key == 0 || m.key != key {
		// not bound yet (the scenario binds the model to its scheduler right
		// after creating it, before the first Enqueue), or another scheduler
		// (a straggler of an earlier scenario)
		return
	}
	m.events++
	if m.exited {
		m.bad("C05", "loop event %d after the loop reported its exit", p)
		return
	}
	m.tick = nil
	switch p {
	case scheduler.VerifLoopTop:
		m.counters("loop top", c, a, -1, b)
	case scheduler.VerifEnqClosed:
		m.closed = true
	case scheduler.VerifEnq:
		if m.closed {
			m.bad("C05", "a job was accepted after the enqueue channel was seen closed")
		}
		if _, dup := m.jobs[j]; dup {
			m.bad("C01", "the same job was accepted twice")
			return
		}
		mj := &mJob{id: len(m.jobs), state: 1}
		seen := map[*scheduler.ScheduledJob]bool{}
		for _, d := range scheduler.VerifDeps(j) {
			if seen[d] {
				continue
			}
			seen[d] = true
			md, ok := m.jobs[d]
			if !ok {
				m.unsound = true
				return
			}
			if md.state != 3 {
				mj.undone++
				md.consumers = append(md.consumers, mj)
			}
		}
		m.jobs[j] = mj
		m.enq++
		if mj.undone == 0 {
			m.ready++
		} else {
			m.waiting++
		}
		if (a > 0) != (mj.undone > 0) {
			m.bad("C01", "job #%d was accepted with %d outstanding dependencies according to the loop, %d according to the model", mj.id, a, mj.undone)
		}
		m.counters("after accepting a job", b, -1, c, -1)
	case scheduler.VerifDispatch:
		mj, ok := m.jobs[j]
		switch {
		case !ok:
			m.bad("C01", "a job the loop never accepted was handed to a worker")
			return
		case mj.state == 2 || mj.state == 3:
			m.bad("C01", "job #%d was handed to a worker twice", mj.id)
			return
		case mj.undone > 0:
			m.bad("C01", "job #%d was handed to a worker while %d of its dependencies have no result yet", mj.id, mj.undone)
			m.waiting-- // keep the counters meaningful for the witness
			m.ready++
			mj.undone = 0
		}
		mj.state = 2
		m.ready--
		m.disp++
		if m.disp-m.res > m.n {
			m.bad("C03", "%d jobs are out with workers at once; the limit is %d", m.disp-m.res, m.n)
		}
		m.counters("after a dispatch", c, b, -1, a)
	case scheduler.VerifResult:
		mj, ok := m.jobs[j]
		if !ok || mj.state != 2 {
			m.bad("C01", "the loop took a result for a job that is not out with a worker")
			return
		}
		mj.state = 3
		mj.failed = a == 1
		m.lastBad = a == 1
		m.res++
		for _, cns := range mj.consumers {
			if cns.state == 1 && cns.undone > 0 {
				cns.undone--
				if cns.undone == 0 {
					m.waiting--
					m.ready++
				}
			}
		}
	case scheduler.VerifResultDone:
		m.counters("after a result", c, b, a, -1)
	case scheduler.VerifTick:
		m.counters("tick", a, b, c, -1)
		idle := m.n - (m.disp - m.res)
		if idle < 0 {
			idle = 0
		}
		m.tick = &tickSnap{pending: m.enq - m.res, ready: m.ready, waiting: m.waiting, idle: idle, n: m.n}
	case scheduler.VerifLoopExit:
		m.exited = true
		if c == 1 {
			if m.coe {
				m.bad("C08", "the loop stopped at a failing result although ContinueOnError is set")
			} else if !m.lastBad {
				m.bad("C07", "the loop stopped early although the last result was not a failure")
			}
		} else {
			if m.enq-m.res != 0 {
				prop := "C07"
				if m.coe {
					prop = "C08"
				}
				m.bad(prop, "the loop left normally with %d accepted jobs that have no result", m.enq-m.res)
			}
			if !m.closed {
				m.bad("C05", "the loop left normally although the enqueue channel was not closed (a later Enqueue would never be served by the loop)")
			}
		}
	}
}

// state is called by the recording emitter, on the goroutine that calls Emit.
func (m *shadow) state(st scheduler.State) {
	m.mu.Lock()
	defer m.mu.Unlock()
	if !m.on || m.unsound || m.tick == nil {
		return
	}
	t := m.tick
	m.tick = nil
	m.exactState++
	if st.Pending != t.pending || st.Ready != t.ready || st.Waiting != t.waiting || st.IdleWorkers != t.idle || st.Concurrency != t.n {
		m.bad("C19", "emitted %+v; at that tick the model has Pending=%d Ready=%d Waiting=%d IdleWorkers=%d Concurrency=%d", st, t.pending, t.ready, t.waiting, t.idle, t.n)
	}
}

func (m *shadow) result() (v []Viol, events, exact int) {
	m.mu.Lock()
	defer m.mu.Unlock()
	return append([]Viol(nil), m.viols...), m.events, m.exactState
}

func isLoopPoint(p int) bool {
	switch p {
	case scheduler.VerifLoopTop, scheduler.VerifDispatch, scheduler.VerifEnqClosed, scheduler.VerifEnq,
		scheduler.VerifResult, scheduler.VerifResultDone, scheduler.VerifTick, scheduler.VerifLoopExit:
		return true
	}
	return false
}
