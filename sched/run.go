//go:build verif

package sched

import (
	"context"
	"errors"
	"fmt"
	"math/rand/v2"
	"runtime"
	"sync"
	"sync/atomic"
	"time"

	"go.uber.org/cff/scheduler"
)

// ---------------------------------------------------------------------------
// Perturbation hook.

const numProfiles = 6

type perturbCfg struct {
	seed     uint64
	profile  int
	quiet    bool // race builds: no shared state in the hook
	scale    int  // weights are divided by this (large scenarios)
	counters [scheduler.VerifNumPoints]atomic.Uint64
	hits     [scheduler.VerifNumPoints]atomic.Uint64

	// observations (plain builds only)
	maxOngoing atomic.Int64
	lateEnq    atomic.Int64    // enqueues that found at least one dependency already done
	wstarts    map[uintptr]int // worker goroutines started, per scheduler
	dispatches atomic.Int64
	sig        atomic.Uint64 // hash of the sequence of loop arms taken
	stMu       sync.Mutex
	states     map[uint64]struct{}             // abstract loop states seen
	model      *shadow                         // online reference model of the loop (plain builds only)
	hold       func(j *scheduler.ScheduledJob) // HoldAtGot scenarios: called at the worker's "got a job" point
	key        atomic.Uintptr                  // the scenario's scheduler; other schedulers (nested ones, stragglers) are perturbed but not accounted
}

var curPerturb atomic.Pointer[perturbCfg]

// perturbWeight is the probability (in 1/1000) of perturbing at point p.
func perturbWeight(profile, p int) int {
	switch profile {
	case 0:
		return 60
	case 1:
		if p == scheduler.VerifLoopTop {
			return 500
		}
		return 30
	case 2:
		if p == scheduler.VerifWorkerPost || p == scheduler.VerifWorkerGot {
			return 500
		}
		return 30
	case 3:
		if p == scheduler.VerifEnqueueSend || p == scheduler.VerifWaitClose || p == scheduler.VerifWaitClosed {
			return 500
		}
		return 30
	case 4:
		return 0
	default:
		return 250
	}
}

func mix(z uint64) uint64 {
	z += 0x9E3779B97F4A7C15
	z = (z ^ (z >> 30)) * 0xBF58476D1CE4E5B9
	z = (z ^ (z >> 27)) * 0x94D049BB133111EB
	return z ^ (z >> 31)
}

func hook(p int, key uintptr, s *scheduler.Scheduler, j *scheduler.ScheduledJob, a, b, c int) {
	pc := curPerturb.Load()
	if pc == nil {
		return
	}
	own := pc.quiet || pc.key.Load() == key
	if p == scheduler.VerifWorkerGot && pc.hold != nil && own {
		pc.hold(j)
	}
	var h uint64
	if pc.quiet {
		h = rand.Uint64() // per-thread runtime randomness: no synchronisation the race detector could see
	} else {
		n := pc.counters[p].Add(1)
		h = mix(pc.seed ^ uint64(p)<<40 ^ n)
		if pc.model != nil && isLoopPoint(p) {
			pc.model.event(p, key, j, a, b, c)
		}
		if p == scheduler.VerifWorkerStart {
			// per scheduler: the first workers start inside Config.New, before
			// the scenario knows its scheduler's key
			pc.stMu.Lock()
			pc.wstarts[key]++
			pc.stMu.Unlock()
		}
		acc := p
		if !own {
			acc = -1
		}
		switch acc {
		case scheduler.VerifDispatch:
			pc.dispatches.Add(1)
			for {
				m := pc.maxOngoing.Load()
				if int64(a) <= m || pc.maxOngoing.CompareAndSwap(m, int64(a)) {
					break
				}
			}
			pc.sig.Store(mix(pc.sig.Load() ^ 1))
		case scheduler.VerifEnq:
			if a < len(dedup(scheduler.VerifDeps(j))) {
				pc.lateEnq.Add(1)
			}
			pc.sig.Store(mix(pc.sig.Load() ^ 2))
		case scheduler.VerifResult:
			pc.sig.Store(mix(pc.sig.Load() ^ uint64(3+a)))
		case scheduler.VerifTick:
			pc.sig.Store(mix(pc.sig.Load() ^ 5))
		case scheduler.VerifLoopTop:
			st := uint64(min(a, 3)) | uint64(min(b, 70))<<8 | uint64(min(c, 3))<<16
			pc.stMu.Lock()
			pc.states[st] = struct{}{}
			pc.stMu.Unlock()
		}
	}
	w := perturbWeight(pc.profile, p) / pc.scale
	if w == 0 || int(h%1000) >= w {
		return
	}
	if !pc.quiet {
		pc.hits[p].Add(1)
	}
	h >>= 10
	switch x := h % 100; {
	case x < 60:
		for k := 1 + int((h>>8)%4); k > 0; k-- {
			runtime.Gosched()
		}
	case x < 98:
		spinFor(time.Duration(1+(h>>8)%200) * time.Microsecond)
	default:
		time.Sleep(time.Duration(1+(h>>8)%2) * time.Millisecond)
	}
}

// spinFor yields for about d. time.Sleep has a granularity of about 1 ms here,
// far too coarse for the windows the scenarios aim at.
func spinFor(d time.Duration) {
	t0 := time.Now()
	for time.Since(t0) < d {
		runtime.Gosched()
	}
}

func dedup(d []*scheduler.ScheduledJob) []*scheduler.ScheduledJob {
	var out []*scheduler.ScheduledJob
outer:
	for _, x := range d {
		for _, y := range out {
			if x == y {
				continue outer
			}
		}
		out = append(out, x)
	}
	return out
}

func init() { scheduler.VerifHook = hook }

// ---------------------------------------------------------------------------
// Execution record.

type jobRec struct {
	starts  atomic.Int32
	start   atomic.Int64
	end     atomic.Int64
	outcome atomic.Int32              // 0 none, 1 ok, 2 err, 3 goexit
	depsArg []*scheduler.ScheduledJob // the slice handed to Enqueue
	ctxOK   atomic.Int32              // 1 ctx carried the marker it was enqueued with, 2 it did not
	enqCall int64
	enqRet  int64
	held    atomic.Bool // the worker holding this job saw cancel() return before it looked at the job's context
	err     error
	sj      *scheduler.ScheduledJob
	sjp     atomic.Pointer[scheduler.ScheduledJob] // the same, readable from hook goroutines
}

type stateRec struct {
	t             int64
	st            scheduler.State
	submitted     int64
	submittedDeps int64
}

type ctxKey struct{}

type jobErr struct {
	i       int
	loose   bool // Is reports true for every error of another type (as an error whose Is compares a classification that foreign errors all share)
	ctxLike bool // unwraps to context.DeadlineExceeded
}

func (e *jobErr) Unwrap() error {
	if e.ctxLike {
		return context.DeadlineExceeded
	}
	return nil
}

func (e *jobErr) Error() string { return fmt.Sprintf("job %d failed", e.i) }

// Is makes a loose error match any error that is not a *jobErr - the way an
// error type does whose Is compares status codes and maps every foreign error
// to one default code. errors.Is(looseErr, anyPlainSentinel) is then true.
func (e *jobErr) Is(target error) bool {
	if !e.loose {
		return false
	}
	_, same := target.(*jobErr)
	return !same
}

// Progress is advanced by every stamped event of the harness (body start/end,
// Enqueue and Wait call/return, cancel): the watchdog reads it.
var Progress atomic.Int64

// Exec is one execution of one scenario.
type Exec struct {
	sc    *Scenario
	quiet bool
	limit int

	clock    atomic.Int64
	inflight atomic.Int64
	hwm      atomic.Int64

	recs []jobRec

	emits         atomic.Int64
	submitted     atomic.Int64
	submittedDeps atomic.Int64

	ctx, otherCtx context.Context
	deadCtx       [3]context.Context // contexts that are done from the start (DeadCtx jobs)
	deadCancel    context.CancelFunc
	cancelFn      context.CancelFunc
	cancelReq     atomic.Int64 // stamp taken before cancel() is called (0: never)
	cancelStamp   atomic.Int64 // stamp taken after cancel() returned
	failed        atomic.Bool

	gate       chan struct{}
	gateOnce   sync.Once
	reached    chan struct{}
	reachOnce  sync.Once
	reachTgt   int64
	finished   chan struct{}
	barrierArr atomic.Int64
	barrierN   int64
	barrierCh  chan struct{}

	stMu   sync.Mutex
	states []stateRec

	waitCalled        atomic.Bool
	waitCall, waitRet int64
	waitErr           error
	returned          atomic.Bool

	census      int // goroutines above baseline while reachTgt bodies were held
	censusSched int // ... of which in scheduler code
	censusTaken bool
	baseline    int
	perturb     *perturbCfg
	marker      *int
	otherMarker *int
	plainOut    []int64 // race builds: one plain slot per job
	plainZero   int64   // race builds: dependency slots found empty (caller-only)
	leak        []G
	leakIncon   bool
}

func (x *Exec) stamp() int64 {
	Progress.Add(1)
	return x.clock.Add(1)
}

type emitter struct{ x *Exec }

func (e emitter) Emit(st scheduler.State) {
	x := e.x
	if k := x.sc.EmitGoexitAt; k > 0 && x.emits.Add(1) == int64(k) {
		runtime.Goexit() // as t.FailNow inside an emitter does
	}
	if x.quiet {
		return
	}
	if x.perturb.model != nil {
		x.perturb.model.state(st)
	}
	r := stateRec{t: x.clock.Add(1), st: st, submitted: x.submitted.Load(), submittedDeps: x.submittedDeps.Load()}
	x.stMu.Lock()
	x.states = append(x.states, r)
	x.stMu.Unlock()
}

func effectiveLimit(n int) int {
	if n != 0 {
		return n
	}
	l := runtime.GOMAXPROCS(0)
	if l < 4 {
		l = 4
	}
	return l
}

// holdAtGot is called on a worker that has just received job j and has not yet
// looked at its context. Jobs other than the cancelling ones wait here until
// cancel() has returned (at most 3 ms: with every worker held the canceller
// might not get a worker). A job released because cancel() returned must not
// start: whatever the worker does next happens after the context was done.
func (x *Exec) holdAtGot(j *scheduler.ScheduledJob) {
	idx := -1
	for t0 := time.Now(); idx < 0 && time.Since(t0) < time.Millisecond; {
		for i := range x.recs {
			if x.recs[i].sjp.Load() == j {
				idx = i
				break
			}
		}
		if idx < 0 {
			runtime.Gosched()
		}
	}
	if idx < 0 {
		return
	}
	if b := x.sc.Jobs[idx].Beh; b == BehCancelOK || b == BehCancelErr || b == BehCancelGoexit || x.sc.Jobs[idx].OtherCtx {
		return
	}
	for t0 := time.Now(); time.Since(t0) < 3*time.Millisecond; {
		if x.cancelStamp.Load() != 0 {
			x.recs[idx].held.Store(true)
			return
		}
		runtime.Gosched()
	}
}

func (x *Exec) openGate() { x.gateOnce.Do(func() { close(x.gate) }) }

func (x *Exec) doCancel() {
	if x.quiet {
		x.cancelFn()
		return
	}
	x.cancelReq.CompareAndSwap(0, x.stamp())
	x.cancelFn()
	x.cancelStamp.CompareAndSwap(0, x.stamp())
}

func (x *Exec) delay(spec *JobSpec) {
	switch spec.Delay {
	case 1:
		for k := 0; k < spec.DelayArg; k++ {
			runtime.Gosched()
		}
	case 2:
		spinFor(time.Duration(spec.DelayArg) * time.Microsecond)
	}
}

func (x *Exec) body(i int) func(context.Context) error {
	if x.quiet {
		return func(ctx context.Context) error { return x.quietBody(i, ctx) }
	}
	spec := &x.sc.Jobs[i]
	r := &x.recs[i]
	return func(ctx context.Context) (err error) {
		st := x.stamp()
		if r.starts.Add(1) == 1 {
			r.start.Store(st)
		}
		cur := x.inflight.Add(1)
		for {
			m := x.hwm.Load()
			if cur <= m || x.hwm.CompareAndSwap(m, cur) {
				break
			}
		}
		out := int32(3) // unless the body returns normally, it left through Goexit
		defer func() {
			if out != 1 {
				x.failed.Store(true)
			}
			r.outcome.Store(out)
			x.inflight.Add(-1)
			r.end.Store(x.stamp())
		}()
		want := x.marker
		if spec.OtherCtx || spec.DeadCtx > 0 {
			want = x.otherMarker
		}
		if p, _ := ctx.Value(ctxKey{}).(*int); p == want {
			r.ctxOK.Store(1)
		} else {
			r.ctxOK.Store(2)
		}
		if cur >= x.reachTgt {
			x.reachOnce.Do(func() { close(x.reached) })
		}
		if spec.Bar {
			if x.barrierArr.Add(1) == x.barrierN {
				close(x.barrierCh)
			}
			<-x.barrierCh
		}
		if spec.Gate {
			<-x.gate
		}
		x.delay(spec)
		switch spec.Beh {
		case BehErr:
			e := x.errOf(i)
			out = 2
			return e
		case BehGoexit:
			runtime.Goexit()
		case BehCancelOK:
			x.doCancel()
		case BehCancelErr:
			x.doCancel()
			e := x.errOf(i)
			out = 2
			return e
		case BehCancelGoexit:
			x.doCancel()
			runtime.Goexit()
		case BehWaitDeadline:
			<-ctx.Done()
			x.cancelStamp.CompareAndSwap(0, x.stamp())
		}
		out = 1
		return nil
	}
}

// errOf produces the error job i returns (JobSpec.ErrKind). It runs inside the
// job's body; for kind 1 it records the value as the job's error, to be
// compared by identity later.
func (x *Exec) errOf(i int) error {
	switch x.sc.Jobs[i].ErrKind {
	case 1:
		inner := scheduler.Config{Concurrency: 1 + i%3}.New()
		inner.Enqueue(context.Background(), scheduler.Job{Run: func(context.Context) error {
			runtime.Goexit()
			return nil
		}})
		e := inner.Wait(context.Background())
		if e == nil {
			e = errors.New("verif: the inner scheduler's Wait returned nil although its only job killed its goroutine")
		}
		x.recs[i].err = e
		return e
	case 3:
		return context.Canceled
	case 4:
		return context.DeadlineExceeded
	}
	return x.recs[i].err
}

// quietBody is the job body of race builds: no shared recorder, no atomics.
// It reads the plain slots of its dependencies and writes its own, so the only
// synchronisation between producer and consumer is the scheduler's.
func (x *Exec) quietBody(i int, ctx context.Context) error {
	spec := &x.sc.Jobs[i]
	sum := int64(i) + 1
	for _, d := range spec.Deps {
		sum += x.plainOut[d]
	}
	if spec.Gate {
		<-x.gate
	}
	x.delay(spec)
	x.plainOut[i] = sum
	switch spec.Beh {
	case BehErr:
		return x.errOf(i)
	case BehGoexit:
		runtime.Goexit()
	case BehCancelOK:
		x.cancelFn()
	case BehCancelErr:
		x.cancelFn()
		return x.errOf(i)
	case BehCancelGoexit:
		x.cancelFn()
		runtime.Goexit()
	case BehWaitDeadline:
		<-ctx.Done()
	}
	return nil
}

func newExec(sc *Scenario, quiet bool) *Exec {
	x := &Exec{sc: sc, quiet: quiet}
	x.limit = effectiveLimit(sc.N)
	if sc.Family == "barrier" {
		materialiseBarrier(sc, x.limit)
	}
	x.recs = make([]jobRec, len(sc.Jobs))
	for i := range x.recs {
		x.recs[i].err = &jobErr{i: i, loose: sc.LooseErrs && i%3 == 1, ctxLike: sc.CtxLikeErrs && i%4 == 2}
	}
	x.marker, x.otherMarker = new(int), new(int)
	root := context.WithValue(context.Background(), ctxKey{}, x.marker)
	cause := &jobErr{i: -1} // never a job's error, never a context error
	switch {
	case sc.CancelKind == CancelDeadlinePast:
		if sc.CauseCtx {
			x.ctx, x.cancelFn = context.WithDeadlineCause(root, time.Now().Add(-time.Second), cause)
		} else {
			x.ctx, x.cancelFn = context.WithDeadline(root, time.Now().Add(-time.Second))
		}
		x.cancelReq.Store(1)
		x.cancelStamp.Store(1) // done before anything else happens
		x.clock.Store(1)
	case sc.DeadlineUS > 0:
		if sc.CauseCtx {
			x.ctx, x.cancelFn = context.WithTimeoutCause(root, time.Duration(sc.DeadlineUS)*time.Microsecond, cause)
		} else {
			x.ctx, x.cancelFn = context.WithTimeout(root, time.Duration(sc.DeadlineUS)*time.Microsecond)
		}
		x.cancelReq.Store(1) // may expire at any time
	case sc.CauseCtx:
		c, cancel := context.WithCancelCause(root)
		x.ctx, x.cancelFn = c, func() { cancel(cause) }
	default:
		x.ctx, x.cancelFn = context.WithCancel(root)
	}
	x.otherCtx = context.WithValue(context.Background(), ctxKey{}, x.otherMarker)
	{
		base := context.WithValue(context.Background(), ctxKey{}, x.otherMarker)
		var c1, c2 context.Context
		var cancel2 context.CancelFunc
		if sc.CauseCtx {
			cc, cancel1 := context.WithCancelCause(base)
			cancel1(cause)
			c1 = cc
			c2, cancel2 = context.WithDeadlineCause(base, time.Now().Add(-time.Hour), cause)
		} else {
			cc, cancel1 := context.WithCancel(base)
			cancel1()
			c1 = cc
			c2, cancel2 = context.WithDeadline(base, time.Now().Add(-time.Hour))
		}
		x.deadCtx = [3]context.Context{nil, c1, c2}
		x.deadCancel = cancel2
	}
	x.gate = make(chan struct{})
	x.reached = make(chan struct{})
	x.finished = make(chan struct{})
	x.barrierCh = make(chan struct{})
	x.reachTgt = int64(x.limit)
	gated := 0
	for _, j := range sc.Jobs {
		if j.Gate {
			gated++
		}
		if j.Bar {
			x.barrierN++
		}
	}
	if sc.Family == "wide" && int64(gated) < x.reachTgt {
		x.reachTgt = int64(gated)
	}
	if quiet {
		x.plainOut = make([]int64, len(sc.Jobs))
	}
	x.perturb = &perturbCfg{seed: sc.PerturbSeed, profile: sc.Profile, quiet: quiet, scale: 1, states: map[uint64]struct{}{}, wstarts: map[uintptr]int{}}
	if !quiet {
		x.perturb.model = newShadow(x.limit, sc.COE)
	}
	if sc.HoldAtGot && !quiet {
		x.perturb.hold = x.holdAtGot
	}
	switch {
	case len(sc.Jobs) >= 10000:
		x.perturb.scale = 200
	case len(sc.Jobs) >= 1000:
		x.perturb.scale = 20
	case len(sc.Jobs) >= 100:
		x.perturb.scale = 3
	}
	return x
}

func materialiseBarrier(sc *Scenario, limit int) {
	if len(sc.Jobs) > 0 {
		return
	}
	k := []int{1, limit, 3 * limit, 0}[sc.Index%4]
	barrierOther := false
	switch sc.Variant {
	case 0: // jobs that kill their goroutine
		for i := 0; i < k; i++ {
			sc.Jobs = append(sc.Jobs, JobSpec{Beh: BehGoexit})
		}
	case 1: // jobs that cancel their own context and then kill their goroutine
		for i := 0; i < k; i++ {
			sc.Jobs = append(sc.Jobs, JobSpec{Beh: BehCancelGoexit})
		}
		barrierOther = k > 0
	case 2: // a failing root with k dependents, which are invalidated, not run
		if k > 0 {
			sc.Jobs = append(sc.Jobs, JobSpec{Beh: BehErr})
			for i := 0; i < k; i++ {
				sc.Jobs = append(sc.Jobs, JobSpec{Deps: []int{0}})
			}
			k++
		}
	case 3: // jobs skipped because the context is done when they are dispatched
		if k > 0 {
			sc.Jobs = append(sc.Jobs, JobSpec{Beh: BehCancelOK})
			for i := 0; i < k; i++ {
				sc.Jobs = append(sc.Jobs, JobSpec{Deps: []int{0}})
			}
			k++
			barrierOther = true
		}
	}
	for i := 0; i < limit; i++ {
		j := JobSpec{Bar: true, OtherCtx: barrierOther}
		if k > 0 {
			j.Pace, j.PaceArg = PaceAfterDepEnded, 0 // only pacing: no dependency
			if sc.Index%3 != 0 {
				j.Pace, j.PaceArg = PaceYields, 3
			}
		}
		sc.Jobs = append(sc.Jobs, j)
	}
	sc.WaitOtherCtx = barrierOther
}

func (x *Exec) pace(i int) {
	spec := &x.sc.Jobs[i]
	if x.quiet {
		switch spec.Pace {
		case PaceYields, PaceAfterDepEnded:
			for k := 0; k < 1+spec.PaceArg%6; k++ {
				runtime.Gosched()
			}
		case PaceAfterFailure:
			spinFor(30 * time.Microsecond)
		}
		return
	}
	bounded := func(cond func() bool) {
		t0 := time.Now()
		for k := 0; !cond(); k++ {
			if !x.sc.COE && x.failed.Load() && k > 5 {
				break // fail-fast and a job failed: nothing more will happen
			}
			if k%16 == 15 && time.Since(t0) > 400*time.Microsecond {
				break
			}
			runtime.Gosched()
		}
		for k := 0; k < 3; k++ { // let the loop take the result off the channel
			runtime.Gosched()
		}
	}
	switch spec.Pace {
	case PaceYields:
		for k := 0; k < spec.PaceArg; k++ {
			runtime.Gosched()
		}
	case PaceAfterDepEnded:
		d := spec.PaceArg
		bounded(func() bool { return x.recs[d].end.Load() != 0 })
	case PaceAfterFailure:
		bounded(func() bool { return x.failed.Load() })
	}
}

func (x *Exec) enqueue(s *scheduler.Scheduler, i int) {
	spec := &x.sc.Jobs[i]
	r := &x.recs[i]
	x.pace(i)
	var deps []*scheduler.ScheduledJob
	if spec.ShareDeps && i > 0 && len(x.recs[i-1].depsArg) == len(spec.Deps)+1 {
		deps = x.recs[i-1].depsArg[1:] // same backing array as the previous Enqueue's argument
	} else {
		for _, d := range spec.Deps {
			deps = append(deps, x.recs[d].sj)
		}
	}
	r.depsArg = deps
	ctx := x.ctx
	if spec.OtherCtx {
		ctx = x.otherCtx
	}
	if spec.DeadCtx > 0 {
		ctx = x.deadCtx[spec.DeadCtx]
	}
	if !x.quiet {
		x.submitted.Add(1)
		if len(deps) > 0 {
			x.submittedDeps.Add(1)
		}
		r.enqCall = x.stamp()
	}
	r.sj = s.Enqueue(ctx, scheduler.Job{Run: x.body(i), Dependencies: deps})
	r.sjp.Store(r.sj)
	if !x.quiet {
		r.enqRet = x.stamp()
	}
	if x.sc.CancelKind == CancelCallerAfter && x.sc.CancelArg == i {
		x.doCancel()
	}
}

// run drives the scenario to the return of Wait.
func (x *Exec) run() {
	sc := x.sc
	x.baseline = runtime.NumGoroutine()
	curPerturb.Store(x.perturb)
	cfg := scheduler.Config{Concurrency: sc.N, ContinueOnError: sc.COE}
	if sc.Emitter {
		cfg.Emitter = emitter{x}
		cfg.StateFlushFrequency = 1
	}
	s := cfg.New()
	if x.perturb.model != nil {
		x.perturb.model.bind(scheduler.VerifKey(s))
	}
	x.perturb.key.Store(scheduler.VerifKey(s))
	if sc.CancelKind == CancelBeforeFirst {
		x.doCancel()
	}
	var helpers sync.WaitGroup
	spinUntil := func(cond func() bool) {
		for k := 0; !cond() && !x.returned.Load(); k++ {
			if k < 20000 {
				runtime.Gosched()
			} else {
				time.Sleep(time.Millisecond)
			}
		}
	}
	if !x.quiet {
		switch sc.CancelKind {
		case CancelHelperOnStart:
			helpers.Add(1)
			go func() {
				defer helpers.Done()
				k := sc.CancelArg
				spinUntil(func() bool { return x.recs[k].starts.Load() > 0 })
				x.doCancel()
			}()
		case CancelAfterWait:
			helpers.Add(1)
			go func() {
				defer helpers.Done()
				spinUntil(func() bool { return x.waitCalled.Load() })
				x.doCancel()
			}()
		}
		switch sc.GateOpen {
		case "census":
			helpers.Add(1)
			go func() {
				defer helpers.Done()
				select {
				case <-x.reached:
					x.takeCensus()
				case <-x.finished:
				}
				x.openGate()
			}()
		case "cancelled":
			helpers.Add(1)
			go func() {
				defer helpers.Done()
				select {
				case <-x.reached:
					x.doCancel()
				case <-x.finished:
				}
				x.openGate()
			}()
		}
	} else {
		// race builds: cancellation from a timer-like helper, gates opened at once
		if sc.CancelKind == CancelHelperOnStart || sc.CancelKind == CancelAfterWait {
			helpers.Add(1)
			go func() {
				defer helpers.Done()
				spinFor(time.Duration(20+sc.CancelArg*7) * time.Microsecond)
				x.cancelFn()
			}()
		}
		if sc.GateOpen != "return" {
			x.openGate()
		}
	}

	sides := map[int][]int{}
	maxSide := 0
	for i, j := range sc.Jobs {
		sides[j.Side] = append(sides[j.Side], i)
		if j.Side > maxSide {
			maxSide = j.Side
		}
	}
	var enq sync.WaitGroup
	for k := 1; k <= maxSide; k++ {
		idx := sides[k]
		if len(idx) == 0 {
			continue
		}
		enq.Add(1)
		go func() {
			defer enq.Done()
			for _, i := range idx {
				x.enqueue(s, i)
			}
		}()
	}
	for _, i := range sides[0] {
		x.enqueue(s, i)
	}
	enq.Wait()
	if sc.GateOpen == "enqueued" {
		x.openGate()
	}

	wctx := x.ctx
	if sc.WaitOtherCtx {
		wctx = x.otherCtx
	}
	if !x.quiet {
		x.waitCall = x.stamp()
	}
	x.waitCalled.Store(true)
	err := s.Wait(wctx)
	if !x.quiet {
		x.waitRet = x.stamp()
	}
	x.waitErr = err
	x.returned.Store(true)
	if sc.GateOpen == "return" {
		x.openGate()
	}
	close(x.finished)
	helpers.Wait()
	x.openGate()
}

func (x *Exec) takeCensus() {
	// All reachTgt running bodies are held on the gate: the goroutine
	// population is stable apart from the caller still enqueuing.
	for k := 0; k < 20; k++ {
		runtime.Gosched()
	}
	gs := parseDump(dumpAll())
	n := 0
	for _, g := range gs {
		if g.InScheduler() {
			n++
		}
	}
	x.census = runtime.NumGoroutine() - x.baseline
	x.censusSched = n
	x.censusTaken = true
}

// settle waits for quiescence: every started body has ended and every
// goroutine the scheduler started is gone (or is reported as leaked).
func (x *Exec) settle() {
	for k := 0; x.inflight.Load() != 0; k++ {
		if k < 20000 {
			runtime.Gosched()
		} else {
			time.Sleep(time.Millisecond)
		}
	}
	t0 := time.Now()
	if x.quiet {
		// no dumps in race builds (they synchronise with everything)
		for runtime.NumGoroutine() > x.baseline && time.Since(t0) < 300*time.Millisecond {
			if time.Since(t0) < 3*time.Millisecond {
				runtime.Gosched()
			} else {
				time.Sleep(time.Millisecond)
			}
		}
		return
	}
	// Quiescence = no goroutine is left in scheduler code. The goroutine count
	// alone does not decide it: the baseline may include a harness goroutine
	// that was about to exit, which would mask a leaked one.
	for {
		n := 0
		for _, g := range parseDump(dumpAll()) {
			if g.InScheduler() {
				n++
			}
		}
		if n == 0 {
			return
		}
		if time.Since(t0) > 500*time.Millisecond {
			break
		}
		if time.Since(t0) < 3*time.Millisecond {
			runtime.Gosched()
		} else {
			time.Sleep(time.Millisecond)
		}
	}
	// Something is still there. Look at it.
	for round := 0; round < 6; round++ {
		var sets [3][]G
		for k := 0; k < 3; k++ {
			var s []G
			for _, g := range parseDump(dumpAll()) {
				if g.InScheduler() {
					s = append(s, g)
				}
			}
			sets[k] = s
			if len(s) == 0 {
				return
			}
			time.Sleep(60 * time.Millisecond)
		}
		if sameBlocked(sets[0], sets[1]) && sameBlocked(sets[1], sets[2]) {
			x.leak = sets[2]
			return
		}
	}
	x.leakIncon = true
}
