//go:build verif

package sched

import (
	"context"
	"errors"
	"fmt"
	"strings"

	"go.uber.org/multierr"
)

// Viol is one violated oracle clause.
type Viol struct {
	Prop string            `json:"prop"`
	Why  string            `json:"why"`
	Obs  map[string]string `json:"obs,omitempty"`
}

// Stats is what the monitors observed in one execution.
type Stats struct {
	Jobs, Started     int
	States            int
	LateEnq           int
	MaxOngoing        int
	HWM               int
	Limit             int
	NonTrivialC01     bool
	MustNotStart      int
	Sig               uint64
	AbsStates         []uint64
	Dispatches        int
	Failures          int
	CensusTaken       bool
	Census            int
	WorkersStarted    int
	Goexits           int
	PerturbHits       int
	CancelSeen        bool
	WaitNil           bool
	EnqAfterLoopExit  int
	MultiErrEntries   int
	TransitiveBlocked int
	ShadowEvents      int
	BareCtxErrJobs    int // jobs that failed with a bare context.Canceled / DeadlineExceeded of their own
	NestedErrJobs     int // jobs that failed with the error of an inner scheduler's Wait (inner job killed its goroutine)
	DeadCtxJobs       int // jobs submitted with a context of their own that was already done
	DeadCtxReached    int // ... whose dependencies all succeeded (a worker received them)
	ExactStates       int
}

func (x *Exec) judge() (viols []Viol, st Stats) {
	sc := x.sc
	add := func(prop, format string, a ...interface{}) {
		viols = append(viols, Viol{Prop: prop, Why: fmt.Sprintf(format, a...)})
	}
	n := len(sc.Jobs)
	st.Jobs = n
	st.Limit = x.limit
	st.HWM = int(x.hwm.Load())
	st.LateEnq = int(x.perturb.lateEnq.Load())
	st.MaxOngoing = int(x.perturb.maxOngoing.Load())
	st.Sig = x.perturb.sig.Load()
	st.Dispatches = int(x.perturb.dispatches.Load())
	x.perturb.stMu.Lock()
	st.WorkersStarted = x.perturb.wstarts[x.perturb.key.Load()]
	for s := range x.perturb.states {
		st.AbsStates = append(st.AbsStates, s)
	}
	x.perturb.stMu.Unlock()
	for p := range x.perturb.hits {
		st.PerturbHits += int(x.perturb.hits[p].Load())
	}
	st.CensusTaken, st.Census = x.censusTaken, x.census
	st.WaitNil = x.waitErr == nil

	ran := make([]bool, n)
	ok := make([]bool, n)
	failed := make([]bool, n) // body ended with error or Goexit
	for i := range x.recs {
		r := &x.recs[i]
		ran[i] = r.starts.Load() > 0
		ok[i] = r.outcome.Load() == 1
		failed[i] = r.outcome.Load() >= 2
		if ran[i] {
			st.Started++
		}
		if failed[i] {
			st.Failures++
		}
		if r.outcome.Load() == 3 {
			st.Goexits++
		}
	}
	cancelReq := x.cancelReq.Load()
	cancelStamp := x.cancelStamp.Load()
	st.CancelSeen = cancelReq != 0

	// ---- C01: order and multiplicity --------------------------------------
	for i := range x.recs {
		r := &x.recs[i]
		if c := r.starts.Load(); c > 1 {
			add("C01", "job %d executed %d times", i, c)
		}
		if !ran[i] {
			continue
		}
		distinct := map[int]bool{}
		for _, d := range sc.Jobs[i].Deps {
			distinct[d] = true
			dr := &x.recs[d]
			switch {
			case dr.end.Load() == 0:
				add("C01", "job %d started (t=%d) although its dependency %d has not finished", i, r.start.Load(), d)
			case dr.outcome.Load() != 1:
				add("C01", "job %d started although its dependency %d failed (%s)", i, d, outcomeName(dr.outcome.Load()))
			case dr.end.Load() > r.start.Load():
				add("C01", "job %d started at t=%d before its dependency %d ended at t=%d", i, r.start.Load(), d, dr.end.Load())
			}
		}
		if len(distinct) >= 2 {
			st.NonTrivialC01 = true
		}
	}
	if st.LateEnq > 0 {
		st.NonTrivialC01 = true
	}

	// ---- C03(a): bounded concurrency ---------------------------------------
	if st.HWM > x.limit {
		add("C03", "%d job bodies were executing at once; the limit is %d (configured %d)", st.HWM, x.limit, sc.N)
	}
	if x.censusTaken {
		// N workers + loop + (transiently) the goroutine that spawns workers.
		if x.censusSched > x.limit+2 {
			add("C03", "%d scheduler goroutines while %d bodies were held (limit %d, %d jobs submitted): goroutines grow beyond f(limit)", x.censusSched, x.reachTgt, x.limit, n)
		}
	}
	// exact, from the worker-start events of this scenario's scheduler: a worker
	// beyond the limit is only ever started to replace one that a job killed
	if st.WorkersStarted > x.limit+st.Goexits {
		add("C03", "%d workers were started; limit %d, %d jobs killed their goroutine", st.WorkersStarted, x.limit, st.Goexits)
	}

	// transitive closure helpers
	blockedBy := make([]bool, n) // some transitive dependency did not succeed
	for i := 0; i < n; i++ {
		for _, d := range sc.Jobs[i].Deps {
			if !ok[d] || blockedBy[d] {
				blockedBy[i] = true
			}
		}
		if blockedBy[i] {
			st.TransitiveBlocked++
		}
	}

	// jobs submitted with their own, already done context
	deadKinds := [3]int{} // per kind: those whose dependencies all succeeded
	anyDead := [3]bool{}
	deadAll := [3]int{}
	for i := range x.recs {
		k := sc.Jobs[i].DeadCtx
		if k == 0 {
			continue
		}
		st.DeadCtxJobs++
		anyDead[k] = true
		deadAll[k]++
		if !blockedBy[i] {
			deadKinds[k]++
			st.DeadCtxReached++
		}
		if ran[i] {
			add("C09", "job %d was started although the context it was submitted with was done before it was submitted (%v)", i, x.deadCtx[k].Err())
		}
	}
	// jobs that failed with a bare context sentinel of their own
	bareFailed := [3]int{}
	bare := func(i int) int {
		if k := sc.Jobs[i].ErrKind; (k == 3 || k == 4) && x.recs[i].outcome.Load() == 2 {
			return k - 2
		}
		return 0
	}
	for i := range x.recs {
		if k := bare(i); k > 0 {
			bareFailed[k]++
			st.BareCtxErrJobs++
		}
		if sc.Jobs[i].ErrKind == 1 && x.recs[i].outcome.Load() == 2 {
			st.NestedErrJobs++
		}
	}
	deadKindOf := func(e error) int { // identity: the error values of the done contexts
		switch e {
		case context.Canceled:
			return 1
		case context.DeadlineExceeded:
			return 2
		}
		return 0
	}

	hasGoexit := sc.hasGoexit() || sc.EmitGoexitAt > 0 // (an emitter that kills the loop's goroutine: only termination and leaks are judged)
	cancelled := cancelReq != 0

	// Did a cancel() certainly complete before Wait read the context for the
	// last time? Yes if it returned before Wait was called, or inside the body
	// of a job (a nil return implies the loop processed that job's result).
	cancelCertain := false
	if cancelStamp != 0 && cancelStamp < x.waitCall {
		cancelCertain = true
	}
	for i := range x.recs {
		b := sc.Jobs[i].Beh
		if (b == BehCancelOK || b == BehCancelErr || b == BehWaitDeadline) && !sc.Jobs[i].OtherCtx && x.recs[i].end.Load() != 0 && x.recs[i].end.Load() < x.waitRet {
			// the body ended before Wait returned; cancel() returned inside it
			cancelCertain = true
		}
	}

	isCtxErr := func(e error) bool {
		return errors.Is(e, context.Canceled) || errors.Is(e, context.DeadlineExceeded)
	}
	ownerOf := func(e error) int {
		for i := range x.recs {
			if e == x.recs[i].err {
				return i
			}
		}
		return -1
	}

	// ---- C07: fail-fast soundness ------------------------------------------
	if !sc.COE && !hasGoexit {
		if x.waitErr == nil {
			for i := range x.recs {
				if x.recs[i].starts.Load() != 1 || !ok[i] {
					add("C07", "Wait returned nil although job %d ran %d times with outcome %s", i, x.recs[i].starts.Load(), outcomeName(x.recs[i].outcome.Load()))
					break
				}
			}
			if cancelCertain && !sc.WaitOtherCtx {
				add("C07", "Wait returned nil although the context had been cancelled (cancel returned at t=%d, Wait called t=%d returned t=%d)", cancelStamp, x.waitCall, x.waitRet)
			}
		} else {
			e := x.waitErr
			switch {
			case ownerOf(e) < 0 && isCtxErr(e): // identity first: a job's own error may claim (Is) to be anything
				if k := deadKindOf(e); !cancelled && !anyDead[k] && bareFailed[k] == 0 {
					add("C07", "Wait returned %v but the context was never cancelled", e)
				}
			default:
				o := ownerOf(e)
				if o < 0 {
					// maybe wrapped
					for i := range x.recs {
						if errors.Is(e, x.recs[i].err) {
							o = i
						}
					}
				}
				switch {
				case o < 0:
					add("C07", "Wait returned an error that is no task's error: %q", e.Error())
				case x.recs[o].outcome.Load() != 2:
					add("C07", "Wait returned the error of job %d, which did not fail (outcome %s)", o, outcomeName(x.recs[o].outcome.Load()))
				}
			}
		}
		for i := range x.recs {
			if ran[i] && blockedBy[i] {
				add("C07", "job %d was invoked although a job it transitively depends on failed or never ran", i)
			}
		}
	}

	// ---- C08: ContinueOnError ----------------------------------------------
	if sc.COE && sc.EmitGoexitAt == 0 {
		for i := range x.recs {
			if ran[i] && blockedBy[i] {
				add("C08", "job %d ran although a job it transitively depends on did not succeed", i)
			}
		}
		entries := multierr.Errors(x.waitErr)
		st.MultiErrEntries = len(entries)
		for _, e := range entries {
			if strings.Contains(e.Error(), "job invalid") {
				add("C08", "the returned error contains the scheduler's internal sentinel: %q", e.Error())
			}
		}
		if !cancelled {
			for i := range x.recs {
				if !blockedBy[i] && sc.Jobs[i].DeadCtx == 0 && x.recs[i].starts.Load() != 1 {
					add("C08", "job %d has only successful dependencies but ran %d times (ContinueOnError)", i, x.recs[i].starts.Load())
				}
			}
			if !hasGoexit {
				seen := map[int]int{}
				deadSeen := [3]int{}
				for _, e := range entries {
					o := ownerOf(e)
					if o < 0 {
						if k := deadKindOf(e); k > 0 {
							deadSeen[k]++
							continue
						}
						add("C08", "returned error has an entry that is no failed task's error: %q", e.Error())
						continue
					}
					seen[o]++
				}
				for k := 1; k <= 2; k++ {
					// (a job downstream of a failure whose own context is done may
					// be reported with that context's error as well: it was skipped
					// by cancellation too)
					if deadSeen[k] < deadKinds[k]+bareFailed[k] || deadSeen[k] > deadAll[k]+bareFailed[k] {
						add("C08", "the returned error has %d entries %q; %d jobs returned that very value, %d jobs were submitted with a context of their own that was done with that error, %d of them with dependencies that all succeeded (the directive's context was never cancelled)", deadSeen[k], x.deadCtx[k].Err(), bareFailed[k], deadAll[k], deadKinds[k])
					}
				}
				for i := range x.recs {
					want := 0
					if x.recs[i].outcome.Load() == 2 && bare(i) == 0 {
						want = 1
					}
					if seen[i] != want {
						add("C08", "error of job %d appears %d times in the returned error, expected %d (outcome %s)", i, seen[i], want, outcomeName(x.recs[i].outcome.Load()))
					}
				}
			}
		} else if !hasGoexit {
			seen := map[int]int{}
			for _, e := range entries {
				if ownerOf(e) < 0 && isCtxErr(e) {
					continue
				}
				o := ownerOf(e)
				switch {
				case o < 0:
					add("C08", "returned error has an entry that is neither a context error nor a failed task's error: %q", e.Error())
				case x.recs[o].outcome.Load() != 2:
					add("C08", "returned error contains the error of job %d, which did not fail", o)
				default:
					seen[o]++
					if seen[o] > 1 {
						add("C08", "error of job %d is reported %d times", o, seen[o])
					}
				}
			}
		}
	}

	// ---- C09: cancellation -------------------------------------------------
	if cancelled {
		// (a) jobs that depend on the job whose body cancelled, (b) jobs
		// enqueued after cancel() returned, (c) saturate family: everything
		// not gated. All only for jobs on the cancelled context.
		must := make([]string, n)
		for i := range x.recs {
			if sc.Jobs[i].OtherCtx {
				continue
			}
			if cancelStamp != 0 && x.recs[i].enqCall > cancelStamp {
				must[i] = "it was submitted after cancel() had returned"
			}
			if sc.Family == "saturate" && !sc.Jobs[i].Gate {
				must[i] = "every worker was busy until after cancel() had returned"
			}
			if x.recs[i].held.Load() {
				must[i] = "cancel() had returned while the worker that received the job had not yet looked at the job's context"
			}
		}
		dependsOnCanceller := make([]bool, n)
		for i := 0; i < n; i++ {
			for _, d := range sc.Jobs[i].Deps {
				b := sc.Jobs[d].Beh
				if ((b == BehCancelOK || b == BehCancelErr || b == BehCancelGoexit || (b == BehWaitDeadline && !sc.Jobs[d].OtherCtx)) && x.recs[d].end.Load() != 0) || dependsOnCanceller[d] {
					dependsOnCanceller[i] = true
				}
			}
			if dependsOnCanceller[i] && !sc.Jobs[i].OtherCtx && must[i] == "" {
				must[i] = "it depends on the job whose body cancelled the context"
			}
		}
		for i := range must {
			if must[i] != "" {
				st.MustNotStart++
				if ran[i] {
					add("C09", "job %d was started after the context was done: %s (cancel returned t=%d, enqueue t=%d, start t=%d)", i, must[i], cancelStamp, x.recs[i].enqCall, x.recs[i].start.Load())
				}
			}
		}
		if x.waitErr == nil && cancelCertain && !sc.WaitOtherCtx {
			add("C09", "Wait returned nil although the context was cancelled before/inside the run")
		}
	}
	for i := range x.recs {
		if x.recs[i].ctxOK.Load() == 2 {
			add("C09", "job %d did not receive the context it was enqueued with", i)
		}
	}

	// ---- C19: state reports ------------------------------------------------
	x.stMu.Lock()
	states := append([]stateRec(nil), x.states...)
	x.stMu.Unlock()
	st.States = len(states)
	for k, r := range states {
		s := r.st
		exec := s.Pending - s.Ready - s.Waiting
		bad := ""
		switch {
		case s.Pending < 0 || s.Ready < 0 || s.Waiting < 0 || s.IdleWorkers < 0 || s.Concurrency < 0:
			bad = "negative count"
		case exec < 0:
			bad = fmt.Sprintf("executing = Pending-Ready-Waiting = %d < 0", exec)
		case exec > s.Concurrency:
			bad = fmt.Sprintf("executing = Pending-Ready-Waiting = %d exceeds Concurrency", exec)
		case s.IdleWorkers != s.Concurrency-exec:
			bad = fmt.Sprintf("IdleWorkers != Concurrency - executing (%d)", s.Concurrency-exec)
		case s.Concurrency != x.limit:
			bad = fmt.Sprintf("Concurrency != configured limit %d", x.limit)
		case int64(s.Pending) > r.submitted:
			bad = fmt.Sprintf("Pending exceeds the %d jobs submitted so far", r.submitted)
		case int64(s.Waiting) > r.submittedDeps:
			bad = fmt.Sprintf("Waiting exceeds the %d jobs with dependencies submitted so far", r.submittedDeps)
		case !cancelled && x.waitErr == nil && r.t > x.waitRet:
			bad = fmt.Sprintf("emitted at t=%d after Wait returned normally at t=%d", r.t, x.waitRet)
		}
		if bad != "" {
			v := Viol{Prop: "C19", Why: fmt.Sprintf("report #%d %+v: %s", k, s, bad)}
			if strings.HasPrefix(bad, "executing = Pending-Ready-Waiting") && exec > s.Concurrency {
				v.Obs = map[string]string{"clause": "executing>concurrency"}
			}
			viols = append(viols, v)
			break
		}
	}

	// ---- shadow scheduler (C01 C03 C07 C08 C19 at the loop's own events) -------
	if x.perturb.model != nil {
		mv, ev, exact := x.perturb.model.result()
		st.ShadowEvents, st.ExactStates = ev, exact
		viols = append(viols, mv...)
	}

	// ---- C06: leaks ----------------------------------------------------------
	if len(x.leak) > 0 {
		var desc []string
		fn, state := "", ""
		for _, g := range x.leak {
			top := ""
			for _, f := range g.Frames {
				if strings.Contains(f, "cff/scheduler.") && !strings.HasPrefix(f, "created by") {
					top = f
					break
				}
			}
			desc = append(desc, fmt.Sprintf("goroutine %d [%s] %s", g.ID, g.State, top))
			fn, state = top, g.State
		}
		viols = append(viols, Viol{Prop: "C06",
			Why: fmt.Sprintf("%d scheduler goroutine(s) still blocked after Wait returned and every started job body ended: %s", len(x.leak), strings.Join(desc, "; ")),
			Obs: map[string]string{"goroutine_fn": fn, "state": state}})
	}
	return viols, st
}

func outcomeName(o int32) string {
	return [...]string{"not run", "ok", "error", "goexit"}[o]
}
