#!/bin/sh
# Builds the driver from files on disk only (offline).
set -e
cd "$(dirname "$0")"
export GOFLAGS=-mod=mod GOPROXY=off GOSUMDB=off GOTOOLCHAIN=local
mkdir -p bin evidence
go build -o bin/vcheck ./cmd/vcheck
# compile the engines' sources once so that a broken tree is seen here, not inside a check
(cd g && go build ./...)
go build -tags verif -o bin/.schedh ./cmd/schedh
go build -o bin/.emith ./cmd/emith
