#!/bin/sh
# Builds the driver from files on disk only (offline).
set -e
cd "$(dirname "$0")"
export GOFLAGS=-mod=mod GOPROXY=off GOSUMDB=off GOTOOLCHAIN=local
mkdir -p bin evidence
go build -o bin/vcheck ./cmd/vcheck
