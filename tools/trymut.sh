#!/bin/bash
# usage: trymut.sh <patch.diff> <prop> [<prop>...]     (env TIER=quick|thorough, PAR=<n>, BASE=<commit of /repo the patch was written against; default HEAD>,
#        VHOME=<a built snapshot of /verif to run the checks from, so that /verif can be edited meanwhile; default /verif>)
# Tries a seeded change without touching /repo: makes a scratch worktree of
# /repo's HEAD under /tmp, applies the change there, runs the named checks
# against it (VERIF_REPO) with evidence/replays redirected (VERIF_OUT), prints
# one line per check and removes the worktree and its output.
export GOFLAGS=-mod=mod GOPROXY=off GOSUMDB=off GOTOOLCHAIN=local
patch="$(readlink -f "$1")"; shift
wt=$(mktemp -d /tmp/trymut-XXXXXX)
rmdir "$wt"
git -C /repo worktree add -q --detach "$wt" "${BASE:-HEAD}" || exit 2
cleanup() { git -C /repo worktree remove --force "$wt" 2>/dev/null; rm -rf "$wt" "$wt.out"; }
trap cleanup EXIT
if ! git -C "$wt" apply "$patch"; then echo "PATCH DOES NOT APPLY: $patch"; exit 2; fi
mkdir -p "$wt.out"
run1() {
  p=$1
  out=$(cd "${VHOME:-/verif}" && VERIF_HOME="${VHOME:-/verif}" VERIF_REPO="$wt" VERIF_OUT="$wt.out/$p" timeout 3600 bin/vcheck "$p" --tier "${TIER:-quick}" 2>&1)
  code=$?
  nv=$(echo "$out" | grep -c '^VIOLATION')
  first=$(echo "$out" | grep '^VIOLATION' | head -1 | cut -c1-400)
  last=$(echo "$out" | tail -1 | cut -c1-200)
  echo "  $p exit=$code violations=$nv ${first:-$last}"
}
export -f run1; export wt TIER VHOME
printf '%s\n' "$@" | xargs -P "${PAR:-4}" -I{} bash -c 'run1 {}'
