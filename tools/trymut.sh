#!/bin/bash
# usage: trymut.sh <patch.diff> <prop> [<prop>...]
# Applies a seeded change to /repo, runs the named checks (quick tier), and
# restores /repo. Prints one line per check.
export GOFLAGS=-mod=mod GOPROXY=off GOSUMDB=off GOTOOLCHAIN=local
patch="$1"; shift
cd /repo || exit 2
if [ -n "$(git status --porcelain)" ]; then echo "REPO NOT CLEAN"; exit 2; fi
if ! git apply "$patch"; then echo "PATCH DOES NOT APPLY: $patch"; exit 2; fi
for p in "$@"; do
  out=$(cd /verif && timeout 900 bin/vcheck "$p" 2>&1)
  code=$?
  nv=$(echo "$out" | grep -c '^VIOLATION')
  first=$(echo "$out" | grep '^VIOLATION' | head -1 | cut -c1-300)
  last=$(echo "$out" | tail -1 | cut -c1-200)
  echo "  $p exit=$code violations=$nv ${first:-$last}"
done
cd /repo && git checkout -- . && git clean -fdq
