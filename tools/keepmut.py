#!/usr/bin/env python3
"""keepmut.py <id> <m> <caught-by-comma-list> <missed-by-comma-list>: copies a confirmed seeded change from /tmp/mut into /verif/seeded."""
import sys, os, shutil, json, re, subprocess
id, m, caught, missed = sys.argv[1], sys.argv[2], sys.argv[3], sys.argv[4]
src = "/tmp/mut/out-%s/%s" % (id, m)
dst = "/verif/seeded/%s-%s" % (id, m)
if os.path.exists(dst): shutil.rmtree(dst)
os.makedirs(dst)
shutil.copy(src + "/patch.diff", dst + "/patch.diff")
shutil.copytree(src + "/demo", dst + "/demo")
notes = open(src + "/NOTES.md").read()
shutil.copy(src + "/NOTES.md", dst + "/NOTES.md")
conf = ""
for line in open("/tmp/mut/confirm1.out") if os.path.exists("/tmp/mut/confirm1.out") else []:
    if line.startswith("%s/%s:" % (id, m)): conf = line.strip()
for f in ["/tmp/mut/confirm2.out", "/tmp/mut/confirm3.out"]:
    if os.path.exists(f):
        for line in open(f):
            if line.startswith("%s/%s:" % (id, m)): conf = line.strip()
files = sorted(set(re.findall(r'^\+\+\+ b/(\S+)', open(src + "/patch.diff").read(), re.M)))
paras = [p.strip() for p in notes.split("\n\n") if p.strip()]
meta = {
    "id": "%s-%s" % (id, m),
    "breaks_property": id,
    "files_changed": files,
    "summary": " ".join(paras[1].split())[:700] if len(paras) > 1 else "",
    "needs_to_manifest": "see NOTES.md (written by the author of the change, who saw only the property text)",
    "confirmed": {
        "how": "scratch worktree of /repo at the commit the patch was written against: git apply patch.diff; go build ./...; go test -vet=off -count=1 ./... in / and /internal/tests (only the baseline failure TestPanicRecovered may fail); demo/run.sh <worktree> with and without the patch",
        "result": conf,
    },
    "checks_run": "tools/trymut.sh patch.diff <props> (applies to /repo, runs bin/vcheck <prop> quick, restores /repo)",
    "caught_by": [c for c in caught.split(",") if c],
    "missed_by": [c for c in missed.split(",") if c],
}
json.dump(meta, open(dst + "/meta.json", "w"), indent=1)
print("kept", dst)
