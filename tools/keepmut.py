#!/usr/bin/env python3
"""keepmut.py <prop> <m> <caught-by-comma-list> <missed-by-comma-list> [history]
Copies a confirmed seeded change from /tmp/mut/out-<prop>/<m> into /verif/seeded/<prop>-<m>
(patch.diff, demo/, NOTES.md) and writes meta.json."""
import sys, os, shutil, json, re
id, m, caught, missed = sys.argv[1], sys.argv[2], sys.argv[3], sys.argv[4]
history = sys.argv[5] if len(sys.argv) > 5 else ""
src = "/tmp/mut/out-%s/%s" % (id, m)
dst = "/verif/seeded/%s-%s" % (id, m)
if os.path.exists(dst): shutil.rmtree(dst)
os.makedirs(dst)
shutil.copy(src + "/patch.diff", dst + "/patch.diff")
shutil.copytree(src + "/demo", dst + "/demo")
notes = open(src + "/NOTES.md").read()
shutil.copy(src + "/NOTES.md", dst + "/NOTES.md")
conf = ""
if os.path.exists("/tmp/mut/confirm.out"):
    for line in open("/tmp/mut/confirm.out"):
        if line.startswith("/tmp/mut/out-%s/%s:" % (id, m)): conf = line.strip().split(": ", 1)[1]
files = sorted(set(re.findall(r'^\+\+\+ b/(\S+)', open(src + "/patch.diff").read(), re.M)))
def section(title):
    mm = re.search(r'^##+\s*' + title + r'.*?\n(.*?)(?=^##+\s|\Z)', notes, re.M | re.S | re.I)
    return " ".join(mm.group(1).split())[:900] if mm else ""
meta = {
    "id": "%s-%s" % (id, m),
    "breaks_property": id,
    "files_changed": files,
    "summary": section("The change"),
    "needs_to_manifest": section("What it needs") or "see NOTES.md (written by the author of the change, who saw only the property text)",
    "author": "fresh sub-agent given only the property text and its own scratch worktree of /repo",
    "confirmed": {
        "how": "tools/confirmmut.sh: fresh scratch worktree of /repo HEAD; demo/run.sh passes on the clean tree; git apply patch.diff; go build ./... in both modules; go test -vet=off -count=1 ./... in / and /internal/tests (only the baseline failure TestPanicRecovered may fail); demo/run.sh fails with the patch",
        "result": conf,
    },
    "checks_run": "tools/trymut.sh patch.diff <props> (scratch worktree of /repo with the patch, VERIF_REPO pointing at it, bin/vcheck <prop> --tier quick)",
    "caught_by": [c for c in caught.split(",") if c],
    "missed_by": [c for c in missed.split(",") if c],
}
if history: meta["history"] = history
json.dump(meta, open(dst + "/meta.json", "w"), indent=1)
print("kept", dst)
