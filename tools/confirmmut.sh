#!/bin/bash
# usage: confirmmut.sh <dir with patch.diff and demo/run.sh>
# Confirms a seeded change independently of its author: in a fresh scratch
# worktree of /repo's HEAD the patch applies, both modules build, both modules'
# suites pass (only the baseline failure TestPanicRecovered may fail), the
# demonstration fails with the patch and passes without it.
export GOFLAGS=-mod=mod GOPROXY=off GOSUMDB=off GOTOOLCHAIN=local
d="$(readlink -f "$1")"
wt=$(mktemp -d /tmp/confirm-XXXXXX); rmdir "$wt"
git -C /repo worktree add -q --detach "$wt" "${BASE:-HEAD}" || exit 2
trap 'git -C /repo worktree remove --force "$wt" 2>/dev/null; rm -rf "$wt"' EXIT
res=""
( cd "$wt" && timeout 600 bash "$d/demo/run.sh" "$wt" >/tmp/confirm.$$.clean 2>&1 ); c0=$?
res="$res demo_clean_exit=$c0"
if ! git -C "$wt" apply "$d/patch.diff"; then echo "$1: PATCH DOES NOT APPLY"; exit 1; fi
( cd "$wt" && go build ./... >/dev/null 2>&1 && cd internal/tests && go build ./... >/dev/null 2>&1 ); res="$res build=$?"
t1=$( cd "$wt" && go test -vet=off -count=1 ./... 2>&1 | grep -E '^(FAIL|---)' | grep -v '^FAIL$' | tr '\n' ' ' )
t2=$( cd "$wt/internal/tests" && go test -vet=off -count=1 ./... 2>&1 | grep -E '^(--- FAIL|FAIL)' | grep -v TestPanicRecovered | grep -v 'internal/tests/predicate' | grep -v '^FAIL$' | tr '\n' ' ' )
res="$res suite_root_fail=[${t1}] suite_tests_fail=[${t2}]"
( cd "$wt" && timeout 600 bash "$d/demo/run.sh" "$wt" >/tmp/confirm.$$.mut 2>&1 ); c1=$?
res="$res demo_patched_exit=$c1"
ok=CONFIRMED
[ "$c0" = 0 ] && [ "$c1" != 0 ] && [ -z "$t1" ] && [ -z "$t2" ] || ok=REJECTED
echo "$1: $ok $res"
if [ "$ok" = REJECTED ]; then echo "--- clean demo output:"; tail -5 /tmp/confirm.$$.clean; echo "--- patched demo output:"; tail -5 /tmp/confirm.$$.mut; fi
rm -f /tmp/confirm.$$.clean /tmp/confirm.$$.mut
