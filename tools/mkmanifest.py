#!/usr/bin/env python3
"""Writes /verif/MANIFEST.json from the table below and validates it."""
import json, subprocess, sys, os

REPO_HOOK_COMMITS = ["51ce9be"]

ENV = "export GOFLAGS=-mod=mod GOPROXY=off GOSUMDB=off GOTOOLCHAIN=local; "

# id -> (engine, technique, level text, level note, design ref)
CHECKS = {
 "C01": ("sched", "runtime monitoring: start/end stamps from one atomic clock inside harness job bodies, checked after quiescence against the scenario's dependency lists; seeded perturbation at verif hook points",
         "Held on every observed execution: order (dep ended ok before dependent started) and at-most-once over thousands of generated DAG scenarios per run; exploration, not proof - interleavings are sampled.",
         "Trusted: the harness's job bodies and clock; the Go runtime. Interleavings reached = OS scheduling + hook perturbation.", "3/C01"),
 "C03": ("sched", "runtime monitoring: exact in-flight counter in job bodies, goroutine census from runtime.Stack while N bodies are held on a gate, N-party barrier after Goexit jobs (stuck-state detector decides)",
         "Held on observed executions: in-flight high-water mark <= limit in every scenario; scheduler goroutines <= N+2 with up to 10^5 jobs; N-party barrier completes after 0/1/N/3N Goexit jobs.",
         "Census is one sample per wide scenario, made decisive by holding every running body on the gate.", "3/C03"),
 "C05": ("sched", "runtime monitoring: watchdog + stuck-state detector (three identical all-blocked goroutine dumps with a static harness clock) over scenario stress with hook perturbation",
         "Every Enqueue/Wait returned in all explored scenarios (early failure + many enqueues, Goexit, cancellation at all plan points, N=1..64). A hang needing an interleaving never produced is missed.",
         "Liveness restated as 'no stuck state while a call is outstanding'; inconclusive watchdog expiries are reported, not failed.", "3/C05"),
 "C06": ("sched", "runtime monitoring: goroutine census after quiescence (NumGoroutine vs. baseline, then runtime.Stack filtered on goroutines created by the scheduler, stable over three dumps)",
         "After every scenario (success, fail-fast, ContinueOnError, cancelled, prompt return with a task still running) the process returned to its goroutine baseline.",
         "Leak verdict needs the same blocked scheduler goroutines in three dumps; anything else is inconclusive.", "3/C06"),
 "C07": ("sched", "runtime monitoring: returned error identity vs. unique per-job error values, invocation log, transitive-dependency closure computed from the scenario",
         "Held on observed fail-fast executions: nil => all ran once ok and no certain cancellation; non-nil => errors.Is a job that actually failed or a context error; nothing downstream of a failure ran.",
         "Scheduler level only so far (generated-code level arrives with Engine G).", "3/C07"),
 "C08": ("sched", "runtime monitoring: multierr.Errors(returned error) compared as a multiset of identities with the failed jobs; invocation log vs. transitive closure",
         "Held on observed ContinueOnError executions incl. late enqueue after a dependency failed and chains of invalidation.",
         "Scheduler level only so far.", "3/C08"),
 "C09": ("sched", "runtime monitoring: must-not-start sets derived structurally (depends on cancelling job / submitted after cancel() returned / all workers held until after cancel()), prompt-return via stuck-state detector, context marker check",
         "Held on observed executions; tasks outside the must-not-start set are not judged (check-then-run window is legitimate).",
         "No timing window is used as a verdict.", "3/C09"),
 "C19": ("sched", "runtime monitoring: recording scheduler.Emitter at StateFlushFrequency=1ns, every report checked against the stated equations and harness-side submission counters",
         "Every one of the (10^5..10^7) reports per run satisfied the stated relations; found F1 (executing > Concurrency) on the pinned tree, fixed.",
         "Counters read inside Emit are conservative upper bounds.", "3/C19"),
}

PENDING = {}
for i in [2,4,10,11,12,13,14,15,16,17,18,20]:
    PENDING["C%02d" % i] = "check not built yet in this round (planned in DESIGN.md; engine under construction)"

def main():
    checks = []
    for pid in sorted(CHECKS):
        eng, tech, text, note, ref = CHECKS[pid]
        checks.append({
            "property_id": pid,
            "quick_cmd": ENV + "bin/vcheck %s --tier quick" % pid,
            "thorough_cmd": ENV + "bin/vcheck %s --tier thorough" % pid,
            "evidence_file": "/verif/evidence/%s.json" % pid,
            "replay_cmd_template": ENV + "bin/vcheck %s --replay {path}" % pid,
            "engine": eng,
            "level_claimed": {"category": "exploration", "text": text, "design_ref": "DESIGN.md section " + ref},
            "level_note": note,
            "technique": tech,
        })
    m = {
        "version": 1,
        "setup_cmd": "./setup.sh",
        "hooks": {
            "guard": "verif",
            "enable": "go build -tags verif (the harness binaries cmd/schedh and the generated-program runners are built with -tags verif; the module replaces go.uber.org/cff by /repo)",
            "baseline_off_cmd": ENV + "cd /repo && go test -vet=off -count=1 ./... && cd /repo/internal/tests && go test -vet=off -count=1 ./...",
            "source_commits": REPO_HOOK_COMMITS,
            "add_only": True,
        },
        "engines": [
            {"name": "sched", "path": "/verif/sched", "serves_properties": ["C01","C03","C05","C06","C07","C08","C09","C12","C19"],
             "kind_free_text": "scheduler package under generated scenario stress; boundary monitors in job bodies, Enqueue/Wait, state emitter; verif hooks for perturbation"},
        ],
        "checks": checks,
        "notes": "baseline_off_cmd: internal/tests/predicate TestPanicRecovered fails on the pinned toolchain before any change (BASELINE.json always_fail); everything else passes. Known findings and fixes: /verif/known_findings.jsonl.",
        "not_applicable": [{"property_id": k, "reason": v} for k, v in sorted(PENDING.items()) if k not in CHECKS],
    }
    json.dump(m, open("/verif/MANIFEST.json", "w"), indent=1)
    open("/verif/MANIFEST.json", "a").write("\n")

if __name__ == "__main__":
    main()
