#!/usr/bin/env python3
"""Writes /verif/MANIFEST.json from the table below and validates it."""
import json, subprocess, sys, os

REPO_HOOK_COMMITS = ["51ce9be"]
# fix: commits in /repo (recorded in known_findings.jsonl): 50eaa9d 8c5e8ca 1ad039d a2fd658 3207f58 09c2b15 3b0dfee 8c772ad 5c48cf6 ad72c2e 591d6e3 297ac37 5c50f69 de60172 f501192 0d29461 cf9e4d6 fb01c45 c296679 7b6d251

ENV = "export GOFLAGS=-mod=mod GOPROXY=off GOSUMDB=off GOTOOLCHAIN=local; "

# id -> (engine, technique, level text, level note, design ref)
S = "runtime monitoring, Engine S: "
G = "runtime monitoring, Engine G: "
T = "runtime monitoring, Engine T: "
CHECKS = {
 "C01": ("sched+gen", S+"start/end stamps from one atomic clock inside harness job bodies, checked after quiescence against the scenario's dependency lists, with seeded perturbation at verif hook points, plus an online shadow scheduler fed by the loop's hook events (a job is handed to a worker once, only when every dependency has a result); " + G + "stub call log vs. the abstract program's dependencies (providers, predicates, element calls of End hooks) on freshly generated code",
         "Held on every observed execution: a dependent never started before its dependency ended ok, no job/function ran twice; scheduler scenarios (DAGs with duplicate deps, late enqueue, dependency lists that share a backing array, one job with more than 65536 unfinished dependencies, both modes, N=1..64) and generated flows/parallels (also two directives per file, nested and simultaneous executions, values of unnamed struct/slice/func/interface types, aliases, and same-named types of two same-named packages).",
         "Trusted: harness bodies/stubs and their clock; the Go runtime. Interleavings reached = OS scheduling + hook perturbation + stub delays.", "3/C01"),
 "C02": ("gen", G+"provenance-hash tokens through freshly generated flow code, compared call by call (arguments, multiplicity, Results) with a reference interpreter written from the statement; each abstract flow printed in 3 listing/option orders, a third of the multi-result flows with two cff.Results options; Params values that are sensitive to the order in which they are evaluated; 4/8/32 simultaneous executions of the same directive from as many goroutines, each judged on its own",
         "Held on every observed execution of every generated flow (all spellings/value-type kinds of the grammar, concurrency default..64, delays).",
         "Programs outside the generator's grammar are not reached; simultaneous executions only for programs whose functions can all find their execution without a global (ctx parameter, captured handle or a non-zero input token).", "3/C02"),
 "C03": ("sched+gen", S+"exact in-flight counter in job bodies, goroutine census from runtime.Stack while N bodies are held on a gate, N-party barrier after Goexit jobs decided by the stuck-state detector, deliveries of state reports to one emitter never overlap (an emitter slower than the flush interval), worker-goroutine starts counted per scheduler at the hook and compared with limit + jobs that killed their goroutine in every scenario (also when jobs hand on the error of a nested scheduler whose job killed its goroutine); " + G + "in-flight counter in stubs vs. the directive's limit",
         "In-flight high-water mark <= limit in every execution; scheduler goroutines <= N+2 with up to 10^5 jobs; N-party barrier completes after 0/1/N/3N Goexit jobs.",
         "Census is one sample per wide scenario, made decisive by holding every running body on the gate. Generated level: wide programs (6..25 independent functions, mostly without cff.Concurrency) held until the limit is saturated plus 3 ms.", "3/C03"),
 "C04": ("gen", G+"every execution runs under recover() in a child process whose death is attributed to its last case; returned error inspected with errors.As(*cff.PanicError) and Value compared with the value observed at the panicking stub",
         "No panic escaped and no child died over all executions in which stubs panicked (10 kinds of values incl. non-comparable ones and *cff.PanicError, every function role; base and modifier mode); returned errors matched observed failures.",
         "panic(nil) excluded (statement says non-nil).", "3/C04"),
 "C05": ("sched+gen", S+"watchdog + stuck-state detector (three identical all-blocked goroutine dumps with a static harness clock) over scenario stress with hook perturbation; " + G + "same detector around every generated-code execution incl. fault, panic and cancel scenarios",
         "Every Enqueue/Wait/Flow/Parallel returned in all explored scenarios, also when tasks or the state emitter kill their goroutine (runtime.Goexit). A hang needing an interleaving never produced is missed.",
         "Liveness restated as 'no stuck state while a call is outstanding'; inconclusive watchdog expiries are reported, not failed.", "3/C05"),
 "C06": ("sched+gen", S+"goroutine census after quiescence (NumGoroutine vs. baseline, then runtime.Stack filtered on goroutines created by the scheduler, stable over three dumps); " + G + "same census after every generated-code execution, a quarter of them with a context.Context implemented outside the standard library (goroutines the context package runs for contexts derived from it count as started for the directive)",
         "After every execution (success, fail-fast, ContinueOnError, cancelled, prompt return with a task still running) the process returned to its goroutine baseline. Found F1 on the pinned tree (fixed).",
         "Leak verdict needs the same blocked scheduler goroutines in three dumps; anything else is inconclusive.", "3/C06"),
 "C07": ("sched+gen", S+"returned error identity vs. unique per-job error values (also bare context sentinels returned by jobs and jobs submitted with an already done context of their own while the scenario's context is live), invocation log, transitive closure from the scenario; " + G + "reference interpreter: failing sets of tasks (errors, panics), returned error matched against observed failing calls, Results sentinels, must-not-call sets",
         "Held on observed fail-fast executions at scheduler and generated-code level (base and modifier mode; programs with helper packages are generated twice, first against an earlier version of the helper package).",
         "Goexit scenarios excluded from error-identity clauses.", "3/C07"),
 "C08": ("sched+gen", S+"multierr.Errors(returned error) compared as a multiset of identities with the failed jobs, invocation log vs. transitive closure; " + G + "Parallel programs with cff.ContinueOnError(expr): every function/element called exactly once, bijection between error entries and failing calls, expr=false behaves fail-fast",
         "Held on observed ContinueOnError executions incl. late enqueue after a dependency failed, chains of invalidation, task errors with a permissive Is method or unwrapping to context errors, bare context sentinels as task errors, and per-job contexts (a job whose own context is done is skipped, nothing else is). Found F17 (fixed).",
         "With cancellation only the weaker 'context errors or distinct failed tasks' clause is judged.", "3/C08"),
 "C09": ("sched+gen", S+"must-not-start sets derived structurally (depends on cancelling job / submitted after cancel() returned / all workers held until after cancel()), prompt return via stuck-state detector, context marker; " + G + "cancel before the call / inside a task or predicate / by helper / prompt-return gate on generated code; contexts with deadlines, cancellation causes, and of foreign implementation",
         "Held on observed executions; the must-not-start set includes jobs whose worker was held, before looking at the context, until cancel() had returned; other ready jobs are not judged (the check-then-run window is legitimate).",
         "No timing window is used as a verdict.", "3/C09"),
 "C10": ("gen", G+"exactly-once multiset of (index,element)/(key,value) tokens per collection, End hook start stamp vs. end stamps of all element calls, End hook never after a failed element",
         "Held on every observed execution of generated Parallel programs (sizes nil/0/1/2/3/7/16/64/1000 and 65537+, index/no-index, ctx/err variants, named collection types, generic enclosing functions, the systematic signature matrix with one-failure scenarios). Found F2 (fixed).",
         "The corpus module says go 1.22; three quarters of the programs pin their file (and hence the generated file) to go1.18/1.20/1.21 in the build constraint, where loop variables are shared by all iterations; the rest runs with per-iteration loop variables.", "3/C10"),
 "C11": ("gen", G+"reference interpreter over predicate outcomes {true,false,panic} x task outcomes {ok,error,panic} with/without FallbackWith; 'predicate starts as soon as its own inputs are there' decided by a gate scenario + stuck-state detector",
         "Held on every observed execution of generated flows with predicates/fallbacks.",
         "Predicates are instrumented only through their stubs.", "3/C11"),
 "C12": ("sched+gen", "Go race detector (-race -tags verif): Engine S in quiet mode (job bodies share no recorder; plain per-job slots) and Engine G in quiet mode (stubs without recorder) under failure/cancel/early-return scenarios; every WARNING: DATA RACE block parsed and deduplicated",
         "No race report over the observed executions; the detector generalises each execution by happens-before.",
         "Harness is written to add no happens-before edges of its own in quiet mode.", "3/C12"),
 "C13": ("tool", T+"the cff binary built from the working tree run as a child process per package over Engine G programs, static multi-directive files and hazard templates in base/source-map x auto-instrument; oracle: no Go panic, positioned diagnostic on failure, outputs parse, package type-checks without the tag, AST scan for residual directives",
         "Held on all explored inputs (two configurations regenerate over longer stale outputs before type-checking) except the recorded known findings F4, F5, F10, F11 (identifier/package shadowing and nested directives); F2, F3, F6, F7, F14, F15, F16, F20, F21 were found and fixed.",
         "Known findings are keyed by (spelling feature, compiler message); a different failure is still reported.", "3/C13"),
 "C14": ("tool", T+"random well-formed flows and every applicable single-defect mutation (16 kinds, incl. dependency rings that lead to no Results value and no Invoke task), each its own package; Slice/Map element/key/value type pairs over an 11-type lattice with the expected verdict computed by go/types.AssignableTo; observed: exit status, diagnostic naming the file, presence of *_gen.go",
         "Every explored ill-formed directive rejected, every well-formed one accepted - also in in-package test files and in files with two directives. Found F8 and F13 (fixed).",
         "Each mutation introduces exactly one named defect by construction.", "3/C14"),
 "C15": ("gen", G+"every argument expression of generated programs wrapped in a logging identity function (site, goroutine id, stamp): exactly once, in source order, on the caller's goroutine, before the first stub call; 'bare' programs pass every argument as a plain local variable that is overwritten with a recognisable replacement when the first user function is entered (any replacement seen later = late evaluation), and in half of them every 2nd..4th argument is a call that overwrites the argument variables written before it (a non-call argument read out of source order sees the replacement); user variables named like generated identifiers carry the Params values",
         "Held on every observed execution. Found F9 and (with //line comments between the arguments) F16 (fixed).",
         "cff.Invoke's argument must be constant and is not wrapped.", "3/C15"),
 "C16": ("tool", T+"(b) build constraints over {cff,a,b} (exhaustive to a nesting depth, sampled deeper; go:build, +build, both) with truth tables via go/build/constraint for all 8 assignments; (a) structural AST comparison of source and output with directive sites masked; (c) SHA-256 snapshot of the module before/after with random -file / -file=IN=OUT selections in base and source-map mode, every invocation repeated with the outputs in place and with a longer stale file at every output path, one ./... invocation over a tree with testdata, nested module, _/. directories and a symlinked package",
         "Held on every explored file.",
         "go.mod/go.sum are maintained by the go command the loader runs and are excluded from the footprint.", "3/C16"),
 "C17": ("tool", T+"byte comparison of every output across fresh cff processes (base and source-map), against -file singleton/subset runs, after adding in-package and external test files, and when regenerating over outputs in place or over longer stale outputs",
         "All outputs byte-identical over the explored corpus: across processes, -file selections, package variants, and a package processed alone vs. together with others.",
         "File order inside a package is fixed by go list.", "3/C17"),
 "C18": ("gen+emit", G+"recording cff.Emitter implementations (1..3 WithEmitter options, nested EmitterStack) on instrumented generated programs; Engine E: cff.EmitterStack/NopEmitter driven at their API over forests of shared, nested and repeatedly extended stacks, per emitter and per stack exact event sequence and payload identity; per execution and per invocation event counts, payload identity, ordering, and equality of what every stacked emitter received",
         "Held on every observed execution.",
         "Under -auto-instrument only bounds are judged (the statement does not fix which tasks cff instruments or their names).", "3/C18"),
 "C19": ("sched+gen", S+"recording scheduler.Emitter at StateFlushFrequency=1ns, every report checked against the stated equations and harness-side submission counters, and compared field by field with an online shadow scheduler fed by the loop's hook events; " + G + "cff.SchedulerEmitter through generated code at the default flush interval: a function is held until the first report, which lingers in EmitScheduler; counts, Concurrency = the directive's limit (also when the limit is a constant that differs between the generator's and the build's configuration), no report in delivery after a nil return",
         "Every one of the (10^5..10^7) reports per run satisfied the stated relations; found F1 (executing > Concurrency) on the pinned tree, fixed.",
         "Counters read inside Emit are conservative upper bounds; the shadow model is exact because loop events and Emit happen on the loop goroutine.", "3/C19"),
}

CHECKS["C20"] = ("tool+gen", T+"(a) every accepted file generated in base and source-map mode, outputs parsed without comments and compared structurally; " + G + "(b) flows restricted to Params/Results/Concurrency/plain Tasks generated in modifier and base mode, executed under identical scenarios (ok/error/panic per task) against the same reference interpreter",
         "Source-map output structurally identical to base output on the whole corpus; modifier output compiled and agreed with the reference (hence with base) on every execution. Found F18, F19 (inputs with //line comments) and F22-F25 (surroundings of a flow that one mode accepts and another fails on); all fixed.",
         "Modifier agreement is established through agreement of both modes with one reference under identical scenarios.", "3/C20")

PENDING = {}

def main():
    checks = []
    for pid in sorted(CHECKS):
        eng, tech, text, note, ref = CHECKS[pid]
        checks.append({
            "property_id": pid,
            "quick_cmd": ENV + "bin/vcheck %s --tier quick" % pid,
            "thorough_cmd": ENV + "bin/vcheck %s --tier thorough" % pid,
            "evidence_file": "/verif/evidence/%s.json" % pid,
            "replay_cmd_template": ENV + "bin/vcheck %s --replay {path}" % pid,
            "engine": eng,
            "level_claimed": {"category": "exploration", "text": text, "design_ref": "DESIGN.md section " + ref},
            "level_note": note,
            "technique": tech,
        })
    m = {
        "version": 1,
        "setup_cmd": "./setup.sh",
        "hooks": {
            "guard": "verif",
            "enable": "go build -tags verif (the harness binaries cmd/schedh and the generated-program runners are built with -tags verif; the module replaces go.uber.org/cff by /repo)",
            "baseline_off_cmd": ENV + "cd /repo && go test -vet=off -count=1 ./... && cd /repo/internal/tests && go test -vet=off -count=1 ./...",
            "source_commits": REPO_HOOK_COMMITS,
            "add_only": True,
        },
        "engines": [
            {"name": "sched", "path": "/verif/sched", "serves_properties": ["C01","C03","C05","C06","C07","C08","C09","C12","C19"],
             "kind_free_text": "scheduler package under generated scenario stress; boundary monitors in job bodies, Enqueue/Wait, state emitter; verif hooks for perturbation"},
            {"name": "gen", "path": "/verif/g", "serves_properties": ["C01","C02","C03","C04","C05","C06","C07","C08","C09","C10","C11","C12","C15","C18","C19","C20"],
             "kind_free_text": "abstract programs printed as cff-tagged packages, compiled by the cff binary built from the working tree, executed under scenarios against a reference interpreter (prog), runtime support (rt), runner (grun)"},
            {"name": "emit", "path": "/verif/cmd/emith", "serves_properties": ["C18"],
             "kind_free_text": "cff.EmitterStack / cff.NopEmitter observed at their API with recording emitters"},
            {"name": "tool", "path": "/verif/cmd/vcheck", "serves_properties": ["C13","C14","C16","C17","C20"],
             "kind_free_text": "the cff binary as observed system: exit status, stderr, files written, bytes/AST/type-check of outputs"},
        ],
        "checks": checks,
        "notes": "baseline_off_cmd: internal/tests/predicate TestPanicRecovered fails on the pinned toolchain before any change (BASELINE.json always_fail); everything else passes. Known findings and fixes: /verif/known_findings.jsonl.",
        "not_applicable": [{"property_id": k, "reason": v} for k, v in sorted(PENDING.items()) if k not in CHECKS],
    }
    json.dump(m, open("/verif/MANIFEST.json", "w"), indent=1)
    open("/verif/MANIFEST.json", "a").write("\n")

if __name__ == "__main__":
    main()
