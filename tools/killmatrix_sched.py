#!/usr/bin/env python3
"""Applies small property-breaking edits to /repo/scheduler/scheduler.go one at a
time, runs the named checks, and restores the file. For validating monitors."""
import subprocess, sys, os
P='/repo/scheduler/scheduler.go'
orig=open(P).read()
M=[
 ("remaining<=1", "				if consumer.remaining == 0 {", "				if consumer.remaining <= 1 && consumer.remaining >= 0 && !consumer.done {", ["C01"]),
 ("ignore-dep-done", "				if dep.done {\n					if dep.err != nil {\n						job.invalid = true\n					}\n					continue\n				}", "				if dep.done && dep.err != nil {\n					job.invalid = true\n				}", ["C05"]),
 ("no-drain", "		for range s.enqueuec {\n		}", "", ["C05"]),
 ("no-nil-enqueuec", "				enqueuec = nil\n				break", "				break", ["C05"]),
 ("donec-cap-1", "donec := make(chan jobResult, c.Concurrency)", "donec := make(chan jobResult, 1)", ["C06"]),
 ("no-ctx-check", "		if err := j.ctx.Err(); err != nil {\n			// Don't run if context already cancelled.\n			res.Err = err\n		} else if j.invalid {", "		if j.invalid {", ["C09"]),
 ("wait-no-ctx-arm", "	case <-ctx.Done():\n		return ctx.Err()\n	case <-s.finishedc:", "	case <-s.finishedc:", ["C09"]),
 ("no-late-invalid", "					if dep.err != nil {\n						job.invalid = true\n					}\n					continue", "					continue", ["C08","C01"]),
 ("no-sentinel-filter", "				if !errors.Is(err, errJobInvalid) {\n					s.err = multierr.Append(s.err, err)\n				}", "				s.err = multierr.Append(s.err, err)", ["C08"]),
 ("no-waiting-dec", "					waiting--\n", "", ["C19"]),
 ("idle-from-pending", "idleWorkers(s.concurrency, ongoing)", "idleWorkers(s.concurrency, pending)", ["C19"]),
 ("worker-writes-err", "			res.Err = j.run(j.ctx)\n", "			res.Err = j.run(j.ctx)\n			j.err = res.Err\n", ["C12"]),
 ("2N-workers", "for i := 0; i < c.Concurrency; i++ {", "for i := 0; i < 2*c.Concurrency; i++ {", ["C03"]),
 ("default-min-2", "_minDefaultWorkers = 4", "_minDefaultWorkers = 2", ["C03","C19"]),
 ("no-replacement", "		go worker(readyc, donec)\n	}()", "	}()", ["C03"]),
 ("exit-or", "if pending == 0 && enqueuec == nil {", "if pending == 0 || enqueuec == nil {", ["C07","C05"]),
 ("err-identity-lost", "					s.err = err\n					return", "					s.err = errors.New(err.Error())\n					return", ["C07"]),
 ("revert-F1", "if ready.Len() > 0 && ongoing < s.concurrency {", "if ready.Len() > 0 {", ["C06","C19"]),
 ("double-dispatch", "			ready.Remove(nextEl)\n\n			ongoing++", "			if ready.Len() > 3 {\n				ready.Remove(nextEl)\n			} else {\n				ready.MoveToBack(nextEl)\n				if next.done { ready.Remove(nextEl) }\n			}\n			ongoing++", ["C01"]),
]
only=sys.argv[1:] 
env=dict(os.environ, GOFLAGS="-mod=mod", GOPROXY="off", GOSUMDB="off", GOTOOLCHAIN="local")
try:
    for name, a, b, props in M:
        if only and name not in only: continue
        if orig.count(a)!=1:
            print(name, "ANCHOR MISMATCH", orig.count(a)); continue
        open(P,'w').write(orig.replace(a,b))
        r=subprocess.run(["go","build","./scheduler"],cwd="/repo",env=env,capture_output=True,text=True)
        if r.returncode!=0:
            print(name,"DOES NOT COMPILE", r.stderr[:300]); continue
        t=subprocess.run(["go","test","-count=1","-timeout","60s","./scheduler"],cwd="/repo",env=env,capture_output=True,text=True)
        suite="suite-pass" if t.returncode==0 else "SUITE-FAILS"
        for p in props:
            r=subprocess.run(["/verif/bin/vcheck",p],cwd="/verif",env=env,capture_output=True,text=True)
            v=[l for l in r.stdout.splitlines() if l.startswith("VIOLATION")]
            print("%-20s %-11s %s exit=%d viol=%d %s"%(name,suite,p,r.returncode,len(v),(v[0][:230] if v else r.stdout.strip().splitlines()[-1][:200])))
            sys.stdout.flush()
finally:
    open(P,'w').write(orig)
