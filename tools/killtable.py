#!/usr/bin/env python3
"""Prints the table of seeded changes (seeded/*/meta.json) as markdown: DESIGN.md Appendix F is this output."""
import json, glob, os
rows = []
for d in sorted(glob.glob('/verif/seeded/*/meta.json')):
    m = json.load(open(d))
    files = ", ".join(os.path.basename(f) for f in m.get('files_changed', []))
    s = (m.get('summary') or '').strip()
    s = s.replace('|', '/').replace('\n', ' ')
    if len(s) > 230: s = s[:227] + '...'
    hist = 'yes' if 'first missed' in (m.get('history') or '') else ''
    rows.append((m['id'], files, s, ", ".join(m.get('caught_by', [])), ", ".join(m.get('missed_by', [])), hist))
print("| id | files | change (author's words, shortened) | caught by (quick tier) | not reported by | missed at first |")
print("|----|-------|------------------------------------|------------------------|-----------------|-----------------|")
for r in rows:
    print("| %s | %s | %s | %s | %s | %s |" % r)
print()
own = [r[0] for r in rows if r[0].split('-')[0] not in [c.strip() for c in r[3].split(',')]]
other = [r[0] for r in rows if r[0] in own and r[3].strip()]
none = [r[0] for r in rows if r[0] in own and not r[3].strip()]
first = sum(1 for r in rows if r[5])
print("%d seeded changes; %d were missed at first by the check of their property and are caught by it after an addition (history in meta.json); %d are reported by the check of the property they were written against%s%s." % (
    len(rows), first, len(rows) - len(own),
    ("; reported by another property's check only: " + ", ".join(other)) if other else "",
    ("; reported by no check: " + ", ".join(none) + " (see meta.json)") if none else ""))
