#!/usr/bin/env python3
"""Applies small property-breaking edits to generator/templates/runtime files of
/repo one at a time, runs the named checks, and restores. For validating
Engine G / T monitors. usage: killmatrix_gen.py [name ...]"""
import subprocess, sys, os
T='/repo/internal/templates/'
M=[
 ("flow-drop-pred-dep", T+"flow/task.go.tmpl", "	{{- if .Predicate -}}\n		pred{{ .Predicate.Serial }}.job,\n	{{- else -}}", "	{{- if .Predicate -}}\n	{{- else -}}", ["C01","C11"]),
 ("slice-end-no-deps", T+"parallel/slice.go.tmpl", "		Dependencies: {{ $t }}Jobs,\n", "", ["C10","C01"]),
 ("results-before-wait", T+"flow/flow.go.tmpl", "	if err := sched.Wait(ctx); err != nil {\n		flowEmitter.FlowError(ctx, err)\n		return err\n	}\n\n	{{ range .Outputs }}\n		*({{ expr .Node }}) = v{{ typeHash .Type }} // {{ typeName .Type }}\n	{{- end }}\n", "	{{ range .Outputs }}\n		*({{ expr .Node }}) = v{{ typeHash .Type }} // {{ typeName .Type }}\n	{{- end }}\n	if err := sched.Wait(ctx); err != nil {\n		flowEmitter.FlowError(ctx, err)\n		return err\n	}\n", ["C02","C07"]),
 ("mapend-no-recover", T+"parallel/map.go.tmpl", "			defer func() {\n				recovered := recover()\n				if recovered != nil {\n					{{ template \"panicError\" }}\n				}\n			}()\n\n			{{ if .HasError }} err = {{ end }} {{ template \"callFunc\" . }}", "			{{ if .HasError }} err = {{ end }} {{ template \"callFunc\" . }}", ["C04"]),
 ("pred-no-recover", T+"flow/predicate.go.tmpl", "    defer func() {\n	if recovered := recover(); recovered != nil {\n	    p{{ predHash . }}PanicRecover = recovered\n        p{{ predHash . }}PanicStacktrace = {{ import \"runtime/debug\" }}.Stack()\n	}\n    }()\n", "", ["C04"]),
 ("panic-value-nil", T+"shared/panic_error.go.tmpl", "    Value:      recovered,", "    Value:      nil,", ["C04"]),
 ("coe-not-forwarded", "/repo/scheduler.go", "		ContinueOnError: p.ContinueOnError,\n", "", ["C08"]),
 ("ptask-background-ctx", T+"parallel/task.go.tmpl", "sched.Enqueue(ctx, {{ $cff }}.Job{\n	Run: task{{ .Serial }}.fn,", "sched.Enqueue({{ $context }}.Background(), {{ $cff }}.Job{\n	Run: task{{ .Serial }}.fn,", ["C09"]),
 ("slice-no-val-copy", T+"parallel/slice.go.tmpl", "	val := val\n", "", ["C10"]),
 ("map-no-key-copy", T+"parallel/map.go.tmpl", "	key := key\n", "", ["C10"]),
 ("pred-false-still-runs", T+"flow/task.go.tmpl", "		if !p{{ predHash .Predicate }} {\n			return nil\n		}\n", "		_ = p{{ predHash .Predicate }}\n", ["C11"]),
 ("fallback-on-success", T+"flow/task.go.tmpl", "		} else {\n			taskEmitter.TaskSuccess(ctx)\n		}", "		} else {\n			taskEmitter.TaskSuccess(ctx)\n			{{ if .FallbackWith }}{{ if len .Outputs }}{{ template \"taskResultList\" . }} = {{ range $i, $v := .FallbackWithResults -}}{{ if gt $i 0 }},{{ end }}{{ expr $v }}{{- end }}, nil{{ end }}{{ end }}\n		}", ["C11"]),
 ("slice-expr-twice", T+"parallel/slice.go.tmpl", "{{ $t }}Slice := {{ expr .Slice }}\n", "{{ $t }}Slice := {{ rawExpr .Slice }}\n", ["C15"]),
 ("paramexprs-by-column", "/repo/internal/gen.go", "		return exprs[i].Pos() < exprs[j].Pos()", "		return g2col(exprs[i]) < g2col(exprs[j])", ["C15"]),
 ("flowsuccess-on-error", T+"flow/flow.go.tmpl", "		flowEmitter.FlowError(ctx, err)\n		return err", "		flowEmitter.FlowError(ctx, err)\n		flowEmitter.FlowSuccess(ctx)\n		return err", ["C18"]),
 ("taskdone-unconditional", T+"flow/task.go.tmpl", "		if {{ $t }}.ran.Load() {\n			taskEmitter.TaskDone(ctx, time.Since(startTime))\n		}", "		taskEmitter.TaskDone(ctx, time.Since(startTime))", ["C18"]),
 ("stack-skip-last-skipped", "/repo/emitter_stack.go", "func (ts taskEmitterStack) TaskSkipped(ctx context.Context, err error) {\n	for _, e := range ts {", "func (ts taskEmitterStack) TaskSkipped(ctx context.Context, err error) {\n	for _, e := range ts[:len(ts)-1] {", ["C18"]),
 ("toposort-reversed", "/repo/internal/compile.go", "	for _, idx := range toposort(g) {\n		topo = append(topo, f.Funcs[idx])\n	}", "	for _, idx := range toposort(g) {\n		topo = append([]*function{f.Funcs[idx]}, topo...)\n	}", ["C02"]),
 ("flow-ctx-background", T+"flow/task.go.tmpl", "{{ $t }}.job = sched.Enqueue(ctx, {{ $cff }}.Job{", "{{ $t }}.job = sched.Enqueue({{ $context }}.Background(), {{ $cff }}.Job{", ["C09"]),
 ("fallback-keeps-err", T+"flow/task.go.tmpl", "				{{- end }}{{ if gt (len .FallbackWithResults) 0 }}, {{ end }} nil\n			{{- else -}}\n				taskEmitter.TaskError(ctx, err)", "				{{- end }}{{ if gt (len .FallbackWithResults) 0 }}, {{ end }} err\n			{{- else -}}\n				taskEmitter.TaskError(ctx, err)", ["C11"]),
 ("ptask-no-recover", T+"parallel/task.go.tmpl", "	defer func() {\n		recovered := recover()\n		if recovered != nil {\n			taskEmitter.TaskPanic(ctx, recovered)\n			{{ template \"panicError\" }}\n		}\n	}()\n", "", ["C04"]),
 ("typeid-collide", "/repo/internal/gen.go", "	id := g.nextTypeID\n	g.nextTypeID++\n	g.typeIDs.Set(t, id)\n	return id", "	id := g.nextTypeID\n	if id < 7 {\n		g.nextTypeID++\n	}\n	g.typeIDs.Set(t, id)\n	return id", ["C02"]),
]
only=sys.argv[1:]
env=dict(os.environ, GOFLAGS="-mod=mod", GOPROXY="off", GOSUMDB="off", GOTOOLCHAIN="local")
for name, path, a, b, props in M:
    if only and name not in only: continue
    orig=open(path).read()
    if orig.count(a)!=1:
        print(name, "ANCHOR MISMATCH", orig.count(a)); continue
    try:
        new=orig.replace(a,b)
        if name=="paramexprs-by-column":
            new+="\nfunc g2col(e ast.Expr) int { return int(e.Pos()) % 97 }\n"
        open(path,'w').write(new)
        r=subprocess.run(["go","build","./..."],cwd="/repo",env=env,capture_output=True,text=True)
        if r.returncode!=0:
            print(name,"DOES NOT COMPILE", r.stderr[:300]); continue
        t=subprocess.run("go test -count=1 -timeout 120s ./... >/dev/null 2>&1 && cd internal/tests && go test -count=1 -timeout 120s ./... 2>&1 | grep -v TestPanicRecovered | grep -c '^--- FAIL'",shell=True,cwd="/repo",env=env,capture_output=True,text=True)
        suite="suite-pass" if t.stdout.strip()=="0" else "SUITE-FAILS(%s)"%t.stdout.strip()
        for p in props:
            r=subprocess.run(["/verif/bin/vcheck",p],cwd="/verif",env=env,capture_output=True,text=True)
            v=[l for l in r.stdout.splitlines() if l.startswith("VIOLATION")]
            print("%-24s %-11s %s exit=%d viol=%d %s"%(name,suite,p,r.returncode,len(v),(v[0][:260] if v else (r.stdout.strip().splitlines() or ['?'])[-1][:200])))
            sys.stdout.flush()
    finally:
        open(path,'w').write(orig)
