#!/bin/bash
# usage: sweep.sh <outdir> <tier> <seed> [<seed>...]   - runs every check on the unchanged tree at the given seeds
# (evidence and replays go to <outdir>, not to /verif); prints one line per (seed, check).
export GOFLAGS=-mod=mod GOPROXY=off GOSUMDB=off GOTOOLCHAIN=local
out=$1; tier=$2; shift 2
mkdir -p "$out"
cd /verif
for s in "$@"; do
  for p in C01 C02 C03 C04 C05 C06 C07 C08 C09 C10 C11 C12 C13 C14 C15 C16 C17 C18 C19 C20; do
    o=$(VERIF_SEED=$s VERIF_OUT="$out/s$s" bin/vcheck $p --tier $tier 2>&1); code=$?
    echo "seed=$s $p exit=$code $(echo "$o" | grep -c '^VIOLATION') viol, $(echo "$o" | grep -c '^INCONCLUSIVE') incon, $(echo "$o" | tail -1 | cut -c1-120)"
    echo "$o" | grep -E '^(VIOLATION|INCONCLUSIVE)' | head -3 | cut -c1-400
  done
done
