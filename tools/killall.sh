#!/bin/bash
# usage: killall.sh [<outfile>]  - tries every seeded change against the check of the property it breaks
# (and the other checks its meta.json lists as catching it; with OWNONLY=1 only the owning check, or - where that one does not catch it - the checks listed); prints one line per (change, check).
out=${1:-/tmp/killall.out}
cd /verif
: > "$out"
run() { d=$1; id=$(basename $d); props=$(python3 -c "import json;m=json.load(open('$d/meta.json'));own=m['breaks_property']; cb=m.get('caught_by',[]); import os; print(' '.join(dict.fromkeys([own]+cb)) if not os.environ.get('OWNONLY') else (own if (own in cb or not cb) else ' '.join(cb)))"); r=$(PAR=2 tools/trymut.sh $d/patch.diff $props 2>&1 | cut -c1-220); echo "== $id [$props]"; echo "$r"; }
export -f run
ls -d seeded/*/ | xargs -P 6 -I{} bash -c 'run {}' >> "$out" 2>&1
echo ALLDONE >> "$out"
